----------------------------- MODULE FooterTrace -----------------------------
(* Allowed outcomes (reference of Footer.tla) of the recorded runs of footer *)
(* cases. trace.ndjson: [case, f (the case record), ep, out]; entry points    *)
(* "parse:<kind>" are the four ParseFooter implementations, "open" is         *)
(* estargz.Open / a store with default decompressors.                          *)
EXTENDS Footer, Json, TLCExt
VARIABLE l
TraceLog == ndJsonDeserialize("trace.ndjson")
Rec(f) == [kind |-> f.kind, blen |-> f.blen, mut |-> f.mut, off |-> f.off, len |-> f.len, opt |-> f.opt]
Why(ev) ==
    IF ev.out \in {"ok", "error"} /\ ev.ep \in {"open", "parse:estargz", "parse:legacy", "parse:zstd", "parse:ext"}
       /\ ev.out \notin Allowed(Rec(ev.f), ev.ep)
    THEN (IF ev.out = "ok" THEN "accepted-short-blob" ELSE "rejected-valid-footer")
    ELSE ""
TraceInit == l = 1 /\ c = [kind |-> "estargz", blen |-> "gt", mut |-> "none", off |-> "inside", len |-> "ok", opt |-> "none"]
TraceNext ==
    /\ l <= Len(TraceLog)
    /\ LET w == Why(TraceLog[l]) IN IF w = "" THEN TRUE ELSE PrintT("VMISS " \o ToString(l) \o " " \o w)
    /\ l' = l + 1
    /\ UNCHANGED c
TraceSpec == TraceInit /\ [][TraceNext]_<<l, c>>
Done == l = Len(TraceLog) + 1 => PrintT("VDONE " \o ToString(Len(TraceLog)))
=============================================================================

CONSTANTS
    UseEntries = {}
    PrioAlphabet = {}
    MaxTar = 0
    MaxPrio = 0
    WithLayout = FALSE
    LayoutOpts <- OptsNone
    ImplicitParents = TRUE
    ParentsFirst = TRUE
    TargetFirst = TRUE
    PickedGuard = TRUE
    SkipPickedInRest = TRUE
    LandmarkAfterMoves = TRUE
    LandmarkByList = TRUE
    ReportMissing = TRUE
    DropInputLandmarks = TRUE
    LastDupWins = TRUE
    LandmarkOwnStream = TRUE
    VisitingIsPath = TRUE
SPECIFICATION MonSpec
INVARIANTS ExactlyOneLandmark EachAtMostOnce NothingLostOrDuplicated PrioritizedFirstInOrder ParentsAndTargetsBefore RestKeepsRelativeOrder MissingAbortsOrIsReported LandmarkStartsOwnStream PrioritizedDataBeforeLandmark NoOtherDataBefore DataAccountedFor
CHECK_DEADLOCK FALSE

\* exhaustive: 2 images sharing a blob, any digest of any image as target, no registry failures
CONSTANTS
    Images <- ImgShared
    Fuse = FALSE
    Kinds = {"diff"}
    Errors = FALSE
    AllTargets = TRUE
    MaxCnt = 1
    MaxNeg = 1
    DeleteInnerCounter = TRUE
    ForgetMemoOfReleased = TRUE
    ResetMemoAtLastRelease = TRUE
    DropOnlyAtZero = TRUE
    DoneDuplicate = TRUE
    ResolveDetached = TRUE
    Cancels = TRUE
INIT Init
NEXT Next
VIEW core
INVARIANTS CountNonNegative HeldWhileCached HandlesMatchLayers TypeOK OnlyOwnCached MemoOkMeansCached TrackedPositive NoCancelRemembered
PROPERTIES NeverDoneWhileUsed UnknownDigestFails LookupSucceedsIffTocInImage SuccessMeansCached LastReleaseDropsBookkeeping NextLookupResolvesAgain
CHECK_DEADLOCK FALSE

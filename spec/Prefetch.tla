------------------------------ MODULE Prefetch ------------------------------
(***************************************************************************)
(* Property C15: prefetch and background fetch of one layer object         *)
(* (fs/layer/layer.go Prefetch/prefetch, WaitForPrefetchCompletion,        *)
(* BackgroundFetch/backgroundFetch; fs/reader/reader.go Cache;             *)
(* fs/remote/blob.go Cache/ReadAt), seen from the callers in fs/fs.go.     *)
(*                                                                         *)
(* One action per step of the code between two points where another call   *)
(* can observe the layer (sync.Once, waiter channel, caches, registry):    *)
(*   PrefetchCall(p)     l.Prefetch(): prefetchOnce.Do (won or not)        *)
(*   Range               DoPrioritizedTask; landmark lookup: no-prefetch   *)
(*                       landmark -> nothing; prefetch landmark -> its     *)
(*                       offset; else configured size capped at blob size  *)
(*   AsyncThreshold      size > PrefetchAsyncSize > 0: waiter closed early *)
(*   BlobCacheStall      l.blob.Cache(0,size) sent its requests, no answer *)
(*   BlobCache(r)        ... answered (ok | fail)                          *)
(*   ReaderCache(r)      verifiableReader.Cache(filter off < size)         *)
(*   PrefetchEnd         deferred prefetchWaiter.done(), DonePrioritized,  *)
(*                       Once completes, the runner returns                *)
(*   PrefetchReturn(p)   a caller that did not win the Once returns (nil)  *)
(*   WaitCall/WaitReturn/WaitTimeout   waiter.wait(timeout); the timeout   *)
(*                       branch closes the waiter too                      *)
(*   BgCall(b), BgStall, BgFinish(r), BgReturn(b)   BackgroundFetch: walk  *)
(*                       of all regular files through InvokeBackgroundTask *)
(*                       (abstracted: runs only while no prioritized task  *)
(*                       is active, is cancelled when one starts)          *)
(*   PrioBegin/PrioEnd   some other prioritized task of the task manager   *)
(*   Read(f)             a complete read of regular file f through the     *)
(*                       verified reader (on-demand path)                  *)
(*   RegistryOff/On      reachability of the registry                      *)
(*                                                                         *)
(* The layer and the configuration are a record `sc` chosen in Init and    *)
(* never changed (so one TLC run covers many layers, and the trace spec    *)
(* can load the layout of the REAL layer a trace was recorded on):         *)
(*   nf    number of regular files (the landmark file is one of them)      *)
(*   off   off[f] = offset of f's first chunk in the blob (GetOffset)      *)
(*   span  span[f] = registry chunks (index = offset \div cs) that hold    *)
(*         the compressed data of f                                        *)
(*   pre   pre[f] = files SOME chunks of which are decompressed (and cached *)
(*         by the pre-reader) on the way to f (several files in a stream); *)
(*   prf   prf[f] = files ALL chunks of which are cached that way          *)
(*   prio  prioritized files; lm in {"prefetch","noprefetch","none"};      *)
(*   loff  landmark offset; size blob size; cs registry chunk size;        *)
(*   cfg   configured prefetch size; thr PrefetchAsyncSize;                *)
(*   np,nw,nb  number of Prefetch / Wait / BackgroundFetch callers         *)
(*   f0    registry chunks fetched while the layer was resolved (TOC)      *)
(*   rd    files that Read may read in this scenario                       *)
(*   pt    files (of >= 3 chunks, alone in their streams) of which ReadPart *)
(*         reads a single chunk (the first or a middle one)                *)
(*   ro    registry goes off: 0 never, 1 only after background fetch has   *)
(*         ended, 2 at any time (rd and ro only bound the state graphs)    *)
(* Sets inside sc are sequences (they come from JSON).                     *)
(*                                                                         *)
(* Deliberate deviations from the code (also listed in the evidence):      *)
(*  - file granularity: a file is 0 not / 1 partly / 2 fully in the chunk  *)
(*    cache; after a FAILED walk the spec keeps a representative (every    *)
(*    file servable without the registry is cached), the trace spec        *)
(*    accepts any monotone outcome (errgroup stops the walk early);        *)
(*  - requests: the spec asks for exactly the missing registry chunks, the *)
(*    code (remoteFetcher) asks for the convex hull per read; the trace    *)
(*    spec takes the observed set and bounds it by the hull;               *)
(*  - Read only happens while no registry request of prefetch/background   *)
(*    fetch is held back (concurrent on-demand reads are C02/C06);         *)
(*  - the task manager is abstract (C13): the silence period is not time;  *)
(*  - a read that joins the blob fetch of a background body just cancelled *)
(*    by a prioritized task fails with that body's "context canceled"      *)
(*    (observed on the code); only the trace spec describes it.            *)
(***************************************************************************)
EXTENDS Integers, Sequences, FiniteSets, TLC

CONSTANTS
    Scenarios,           \* set of scenario records (see above)
    StrictFilter,        \* TRUE: file cached iff off < size (code); FALSE: off <= size
    CloseOnFailure,      \* TRUE: prefetchWaiter.done() is deferred, so also runs on failure
    HonourNoPrefetch,    \* TRUE: a no-prefetch landmark ends prefetch before any traffic
    CapAtBlobSize,       \* TRUE: configured size > blob size is replaced by the blob size
    BgAllFiles,          \* TRUE: background fetch caches every regular file; FALSE: skips files seen by the pre-reader
    WaitHonoursTimeout,  \* TRUE: wait() has a timeout branch
    FailOnCacheError,    \* TRUE: an error of the chunk cache's Add makes the caching walk (and so Prefetch/BackgroundFetch) fail;
                         \* FALSE: the chunk is silently left out and the walk reports success
    ThresholdOnEffective,\* TRUE: PrefetchAsyncSize is compared with the effective range (after the landmark lookup / cap);
                         \* FALSE: with the configured size, before the landmarks are looked up
    AllowReg             \* RegistryOff/On actions enabled in this configuration

VARIABLES
    sc,        \* scenario (constant after Init)
    pc,        \* [1..np -> {"idle","in","ret"}]   Prefetch callers
    runner,    \* caller that won prefetchOnce (0 = nobody yet)
    pf,        \* "none","started","ranged","thresh","stalled","fetched","finishing","end"
    pfres,     \* "none","ok","fail"
    psize,     \* range decided by Range (-1 = none)
    pinfo,     \* Info().PrefetchSize (set after the blob range was fetched)
    waiter,    \* "open" | "closed"
    wc,        \* [1..nw -> {"idle","waiting","ok","timeout"}]
    bc,        \* [1..nb -> {"idle","in","ret"}]
    brunner,   \* caller that won backgroundFetchOnce
    bg,        \* "none","started","stalled","suspended","end"
    bgres,     \* "none","ok","fail"
    prio,      \* other prioritized tasks in progress (0..1)
    fetched,   \* registry chunks in the blob (http) cache
    lst,       \* [Files -> 0..2] chunk-cache state of each regular file
    reg,       \* "on" | "off"
    last       \* observation: the action just taken, its result, the registry chunks it requested

core == <<sc, pc, runner, pf, pfres, psize, pinfo, waiter, wc, bc, brunner, bg, bgres, prio, fetched, lst, reg>>
vars == <<sc, pc, runner, pf, pfres, psize, pinfo, waiter, wc, bc, brunner, bg, bgres, prio, fetched, lst, reg, last>>

ToSet(s) == {s[i] : i \in DOMAIN s}
Min(a, b) == IF a < b THEN a ELSE b
Files == 1..sc.nf
Span(f) == ToSet(sc.span[f])
Pre(f) == ToSet(sc.pre[f])
Prf(f) == ToSet(sc.prf[f])
Prio == ToSet(sc.prio)
NB == (sc.size + sc.cs - 1) \div sc.cs
Cover(n) == {i \in 0..(NB - 1) : i * sc.cs < n}          \* registry chunks of blob range [0, n)
Hull(S) == IF S = {} THEN {} ELSE LET lo == CHOOSE x \in S : \A y \in S : x <= y
                                      hi == CHOOSE x \in S : \A y \in S : x >= y
                                  IN lo..hi
UnionOf(F, Op(_)) == UNION {Op(f) : f \in F}

\* what the statement promises
Expected == IF sc.lm = "prefetch" THEN sc.loff ELSE Min(sc.cfg, sc.size)
\* what prefetch() computes
RangeSize == IF sc.lm = "prefetch" THEN sc.loff
             ELSE IF CapAtBlobSize /\ sc.cfg > sc.size THEN sc.size ELSE sc.cfg
InRange(f, n) == IF StrictFilter THEN sc.off[f] < n ELSE sc.off[f] <= n
RangeFiles(n) == {f \in Files : InRange(f, n)}

\* chunk-cache effect of decompressing-and-caching the files F (those not yet full are really read)
MarkFull(l, F) ==
    LET R == {g \in F : l[g] # 2} IN
    [f \in Files |-> IF f \in F \/ \E g \in R : f \in Prf(g) THEN 2
                     ELSE IF l[f] = 0 /\ \E g \in R : f \in Pre(g) THEN 1 ELSE l[f]]
Missing(F) == UnionOf({f \in F : lst[f] # 2}, Span) \ fetched
Servable(f) == lst[f] = 2 \/ Span(f) \subseteq fetched

BgFiles == IF BgAllFiles THEN Files ELSE {f \in Files : lst[f] # 1}      \* files background fetch caches
PfPrio == pf \in {"ranged", "thresh", "stalled", "fetched", "finishing"}   \* Prefetch holds a prioritized task
Held == pf = "stalled" \/ bg = "stalled"                                      \* a request is held back by the registry

----------------------------------------------------------------------------
Init ==
    /\ sc \in Scenarios
    /\ pc = [p \in 1..sc.np |-> "idle"] /\ runner = 0
    /\ pf = "none" /\ pfres = "none" /\ psize = -1 /\ pinfo = 0
    /\ waiter = "open"
    /\ wc = [w \in 1..sc.nw |-> "idle"]
    /\ bc = [b \in 1..sc.nb |-> "idle"] /\ brunner = 0
    /\ bg = "none" /\ bgres = "none" /\ prio = 0
    /\ fetched = ToSet(sc.f0)                      \* footer and TOC were read when the layer was resolved
    /\ lst = [f \in 1..sc.nf |-> 0]
    /\ reg = "on"
    /\ last = [act |-> "Init", req |-> {}]

\* ---------------------------------------------------------------- prefetch
PrefetchCall(p) ==
    /\ pc[p] = "idle"
    /\ \A q \in 1..(p - 1) : pc[q] # "idle"          \* callers are interchangeable: lowest first
    /\ pc' = [pc EXCEPT ![p] = "in"]
    /\ IF pf = "none"
       THEN pf' = "started" /\ runner' = p
       ELSE UNCHANGED <<pf, runner>>
    /\ UNCHANGED <<sc, pfres, psize, pinfo, waiter, wc, bc, brunner, bg, bgres, prio, fetched, lst, reg>>
    /\ last' = [act |-> "PrefetchCall", p |-> p, won |-> (pf = "none"), req |-> {}]

Range ==
    /\ pf = "started"
    /\ IF sc.lm = "noprefetch" /\ HonourNoPrefetch
       THEN pf' = "finishing" /\ pfres' = "ok" /\ UNCHANGED psize
       ELSE pf' = "ranged" /\ psize' = RangeSize /\ UNCHANGED pfres
    /\ bg' = IF bg = "stalled" THEN "suspended" ELSE bg    \* DoPrioritizedTask cancels running background bodies
    /\ waiter' = IF ~ThresholdOnEffective /\ sc.thr > 0 /\ sc.cfg > sc.thr THEN "closed" ELSE waiter
    /\ UNCHANGED <<sc, pc, runner, pinfo, wc, bc, brunner, bgres, prio, fetched, lst, reg>>
    /\ last' = [act |-> "Range", size |-> psize', req |-> {}]

AsyncThreshold ==
    /\ pf = "ranged"
    /\ pf' = "thresh"
    /\ waiter' = IF ThresholdOnEffective /\ sc.thr > 0 /\ psize > sc.thr THEN "closed" ELSE waiter
    /\ UNCHANGED <<sc, pc, runner, pfres, psize, pinfo, wc, bc, brunner, bg, bgres, prio, fetched, lst, reg>>
    /\ last' = [act |-> "AsyncThreshold", req |-> {}]

BlobCacheStall ==
    /\ pf = "thresh"
    /\ Cover(psize) \ fetched # {}
    /\ pf' = "stalled"
    /\ UNCHANGED <<sc, pc, runner, pfres, psize, pinfo, waiter, wc, bc, brunner, bg, bgres, prio, fetched, lst, reg>>
    /\ last' = [act |-> "BlobCacheStall", req |-> Cover(psize) \ fetched]

\* r names what the environment does to a step: "ok", "fail" (the registry refuses the requests) or "cachefail" (the
\* chunk cache's Add returns an error, e.g. ENOSPC, while the step runs); Reported(r) is what the step returns
Reported(r) == IF r = "ok" \/ (r = "cachefail" /\ ~FailOnCacheError) THEN "ok" ELSE "fail"

\* The "G" forms take what the step fetched (got), the chunk-cache state it left (l2) and the requests it made (rq) as
\* arguments, bounded by what the design allows; the plain forms used by Next pick the canonical values, the trace
\* spec passes the values observed on the implementation.
BlobCacheG(r, got, rq) ==
    /\ pf \in {"thresh", "stalled"}
    /\ LET need == Cover(psize) \ fetched IN
        /\ r = "fail" => need # {}
        /\ r = "ok" => (need = {} \/ reg = "on")
        /\ IF r = "ok"
           THEN /\ need \subseteq got /\ got \subseteq Hull(need)
                /\ fetched' = fetched \cup got
                /\ pf' = "fetched" /\ UNCHANGED pfres
           ELSE /\ pf' = "finishing" /\ pfres' = "fail" /\ UNCHANGED fetched
        /\ last' = [act |-> "BlobCache", r |-> r, req |-> rq]
    /\ UNCHANGED <<sc, pc, runner, psize, pinfo, waiter, wc, bc, brunner, bg, bgres, prio, lst, reg>>
BlobCache(r) == BlobCacheG(r, Cover(psize) \ fetched, IF pf = "stalled" THEN {} ELSE Cover(psize) \ fetched)

\* bounds for a walk over the files F that decompresses and caches them
NeedMin(F) == UnionOf({f \in F : lst[f] = 0}, Span) \ fetched
GotMax(F) == UnionOf({f \in F : lst[f] # 2}, LAMBDA f : Hull(Span(f)))
Monotone(l2, F) == \A f \in Files : l2[f] \in lst[f]..2 /\ (l2[f] > lst[f] => (f \in F \/ \E g \in F : f \in Pre(g) \cup Prf(g)))

ReaderCacheG(r, got, l2, rq) ==
    /\ pf = "fetched"
    /\ LET F == RangeFiles(psize)
           need == Missing(F) IN
        /\ r = "fail" => need # {}
        /\ r = "ok" => (need = {} \/ reg = "on")
        /\ r = "cachefail" => ((need = {} \/ reg = "on") /\ \E f \in F : lst[f] # 2)
        /\ CASE r = "ok" -> /\ NeedMin(F) \subseteq got /\ got \subseteq GotMax(F)
                            /\ l2 = MarkFull(lst, F)
             [] r = "fail" -> got \subseteq GotMax(F) /\ Monotone(l2, F)
             [] r = "cachefail" -> got \subseteq GotMax(F) /\ Monotone(l2, F)   \* the data is fetched; chunks committed before the
                                                                             \* fault set in stay, the walk fails at the first Add
        /\ pfres' = Reported(r)
        /\ fetched' = fetched \cup got
        /\ lst' = l2
        /\ last' = [act |-> "ReaderCache", r |-> Reported(r), cause |-> r, req |-> rq]
    /\ pf' = "finishing"
    /\ pinfo' = psize                      \* l.prefetchSize is set between blob.Cache and verifiableReader.Cache
    /\ UNCHANGED <<sc, pc, runner, psize, waiter, wc, bc, brunner, bg, bgres, prio, reg>>
ReaderCache(r) ==
    LET F == RangeFiles(psize) IN
    CASE r = "ok" -> ReaderCacheG(r, Missing(F), MarkFull(lst, F), Missing(F))
      [] r = "fail" -> ReaderCacheG(r, {}, MarkFull(lst, {f \in F : Servable(f)}), Missing(F))
      [] r = "cachefail" -> ReaderCacheG(r, Missing(F), lst, Missing(F))

\* DonePrioritizedTask: a background fetch that was cancelled starts its bodies again once no prioritized task is
\* left; it caches what it can get without the registry (l2, bounded by BgResumeOK) and its requests are held again
BgResumes(stillPrio) == bg = "suspended" /\ ~stillPrio
BgResumeOK(l2, resumes) == IF resumes THEN Monotone(l2, BgFiles) ELSE l2 = lst
BgLocal == MarkFull(lst, {f \in BgFiles : Servable(f)})        \* canonical outcome: every file servable locally is cached

PrefetchEndG(l2) ==
    /\ pf = "finishing"
    /\ pf' = "end"
    /\ waiter' = IF pfres = "ok" \/ CloseOnFailure THEN "closed" ELSE waiter
    /\ pc' = [pc EXCEPT ![runner] = "ret"]
    /\ BgResumeOK(l2, BgResumes(prio > 0))
    /\ lst' = l2
    /\ bg' = IF BgResumes(prio > 0) /\ Missing(BgFiles) # {} THEN "stalled" ELSE bg   \* nothing missing: it just runs to its end
    /\ UNCHANGED <<sc, runner, pfres, psize, pinfo, wc, bc, brunner, bgres, prio, fetched, reg>>
    /\ last' = [act |-> "PrefetchEnd", p |-> runner, res |-> pfres, req |-> {}]
PrefetchEnd == PrefetchEndG(IF BgResumes(prio > 0) THEN BgLocal ELSE lst)

\* a caller that lost the Once: Do returns once the winner's function has returned; its err stays nil
PrefetchReturn(p) ==
    /\ pc[p] = "in" /\ p # runner /\ pf = "end"
    /\ pc' = [pc EXCEPT ![p] = "ret"]
    /\ UNCHANGED <<sc, runner, pf, pfres, psize, pinfo, waiter, wc, bc, brunner, bg, bgres, prio, fetched, lst, reg>>
    /\ last' = [act |-> "PrefetchReturn", p |-> p, res |-> "ok", req |-> {}]

\* -------------------------------------------------------------------- wait
WaitCall(w) ==
    /\ wc[w] = "idle"
    /\ \A v \in 1..(w - 1) : wc[v] # "idle"
    /\ wc' = [wc EXCEPT ![w] = "waiting"]
    /\ UNCHANGED <<sc, pc, runner, pf, pfres, psize, pinfo, waiter, bc, brunner, bg, bgres, prio, fetched, lst, reg>>
    /\ last' = [act |-> "WaitCall", w |-> w, req |-> {}]

WaitReturn(w) ==
    /\ wc[w] = "waiting" /\ waiter = "closed"
    /\ wc' = [wc EXCEPT ![w] = "ok"]
    /\ UNCHANGED <<sc, pc, runner, pf, pfres, psize, pinfo, waiter, bc, brunner, bg, bgres, prio, fetched, lst, reg>>
    /\ last' = [act |-> "WaitReturn", w |-> w, res |-> "ok", req |-> {}]

\* the timer of this call has expired. select picks among ready cases at random, so the timeout branch can be taken
\* even if the waiter has been closed meanwhile (by the end of prefetch or by another caller's timeout)
WaitTimeout(w) ==
    /\ WaitHonoursTimeout
    /\ wc[w] = "waiting"
    /\ wc' = [wc EXCEPT ![w] = "timeout"]
    /\ waiter' = "closed"                                  \* the timeout branch calls w.done()
    /\ UNCHANGED <<sc, pc, runner, pf, pfres, psize, pinfo, bc, brunner, bg, bgres, prio, fetched, lst, reg>>
    /\ last' = [act |-> "WaitTimeout", w |-> w, res |-> "timeout", req |-> {}]

\* -------------------------------------------------------- background fetch
BgMayRun == prio = 0 /\ ~PfPrio

BgCall(b) ==
    /\ bc[b] = "idle"
    /\ \A q \in 1..(b - 1) : bc[q] # "idle"
    /\ bc' = [bc EXCEPT ![b] = "in"]
    /\ IF bg = "none" THEN bg' = "started" /\ brunner' = b ELSE UNCHANGED <<bg, brunner>>
    /\ UNCHANGED <<sc, pc, runner, pf, pfres, psize, pinfo, waiter, wc, bgres, prio, fetched, lst, reg>>
    /\ last' = [act |-> "BgCall", b |-> b, won |-> (bg = "none"), req |-> {}]

\* the walk has begun: what is servable without the registry gets cached, the first requests are out and unanswered
BgStallG(l2) ==
    /\ bg = "started" /\ BgMayRun /\ ~Held
    /\ Missing(BgFiles) # {}
    /\ bg' = "stalled"
    /\ Monotone(l2, BgFiles)
    /\ lst' = l2
    /\ UNCHANGED <<sc, pc, runner, pf, pfres, psize, pinfo, waiter, wc, bc, brunner, bgres, prio, fetched, reg>>
    /\ last' = [act |-> "BgStall", req |-> {}]
BgStall == BgStallG(BgLocal)

BgFinishG(r, got, l2, rq) ==
    /\ bg \in {"started", "stalled", "suspended"} /\ BgMayRun
    /\ bg = "started" => ~Held
    /\ LET F == BgFiles
           need == Missing(F) IN
        /\ r = "fail" => need # {}
        /\ r = "ok" => (need = {} \/ reg = "on")
        /\ r = "cachefail" => ((need = {} \/ reg = "on") /\ \E f \in F : lst[f] # 2)
        /\ CASE r = "ok" -> NeedMin(F) \subseteq got /\ got \subseteq GotMax(F) /\ l2 = MarkFull(lst, F)
             [] r = "fail" -> got \subseteq GotMax(F) /\ Monotone(l2, F)
             [] r = "cachefail" -> got \subseteq GotMax(F) /\ Monotone(l2, F)
        /\ fetched' = fetched \cup got
        /\ lst' = l2
        /\ last' = [act |-> "BgFinish", r |-> Reported(r), cause |-> r, b |-> brunner, req |-> rq]
    /\ bg' = "end" /\ bgres' = Reported(r)
    /\ bc' = [bc EXCEPT ![brunner] = "ret"]
    /\ UNCHANGED <<sc, pc, runner, pf, pfres, psize, pinfo, waiter, wc, brunner, prio, reg>>

BgFinish(r) ==
    LET F == BgFiles IN
    CASE r = "ok" -> BgFinishG(r, Missing(F), MarkFull(lst, F), Missing(F))
      [] r = "fail" -> BgFinishG(r, {}, MarkFull(lst, {f \in F : Servable(f)}), Missing(F))
      [] r = "cachefail" -> BgFinishG(r, Missing(F), lst, Missing(F))

BgReturn(b) ==
    /\ bc[b] = "in" /\ b # brunner /\ bg = "end"
    /\ bc' = [bc EXCEPT ![b] = "ret"]
    /\ UNCHANGED <<sc, pc, runner, pf, pfres, psize, pinfo, waiter, wc, brunner, bg, bgres, prio, fetched, lst, reg>>
    /\ last' = [act |-> "BgReturn", b |-> b, res |-> "ok", req |-> {}]

PrioBegin ==
    /\ sc.nb > 0 /\ prio = 0 /\ bg \in {"started", "stalled", "suspended"}
    /\ prio' = 1
    /\ bg' = IF bg = "stalled" THEN "suspended" ELSE bg
    /\ UNCHANGED <<sc, pc, runner, pf, pfres, psize, pinfo, waiter, wc, bc, brunner, bgres, fetched, lst, reg>>
    /\ last' = [act |-> "PrioBegin", req |-> {}]

PrioEndG(l2) ==
    /\ prio = 1
    /\ prio' = 0
    /\ BgResumeOK(l2, BgResumes(PfPrio))
    /\ lst' = l2
    /\ bg' = IF BgResumes(PfPrio) /\ Missing(BgFiles) # {} THEN "stalled" ELSE bg
    /\ UNCHANGED <<sc, pc, runner, pf, pfres, psize, pinfo, waiter, wc, bc, brunner, bgres, fetched, reg>>
    /\ last' = [act |-> "PrioEnd", req |-> {}]
PrioEnd == PrioEndG(IF BgResumes(PfPrio) THEN BgLocal ELSE lst)

\* ------------------------------------------------------------------- reads
ReadG(f, ok, got, l2, rq) ==
    /\ ~Held
    /\ f \in ToSet(sc.rd)                           \* files this scenario reads (bounds the exhaustive runs)
    /\ LET need == IF lst[f] = 2 THEN {} ELSE Span(f) \ fetched IN
        /\ ok = (need = {} \/ reg = "on")
        /\ IF ok
           THEN NeedMin({f}) \subseteq got /\ got \subseteq GotMax({f}) /\ l2 = MarkFull(lst, {f})
           ELSE got = {} /\ Monotone(l2, {f})
        /\ fetched' = fetched \cup got
        /\ lst' = l2
        /\ last' = [act |-> "Read", f |-> f, ok |-> ok, req |-> rq]
    /\ UNCHANGED <<sc, pc, runner, pf, pfres, psize, pinfo, waiter, wc, bc, brunner, bg, bgres, prio, reg>>
Read(f) ==
    LET need == IF lst[f] = 2 THEN {} ELSE Span(f) \ fetched IN
    IF need = {} \/ reg = "on" THEN ReadG(f, TRUE, need, MarkFull(lst, {f}), need)
    ELSE ReadG(f, FALSE, {}, lst, need)

\* A read of ONE chunk of file f (k = 1: the first, k = 2: a middle one) through the on-demand path: that chunk is
\* cached, the file is then partly cached (pt files have at least 3 chunks and k never names the last one, so partial
\* reads alone never complete a file). Which registry chunks hold that chunk is below the spec's (file) granularity:
\* the step fetches some of the file's missing registry chunks.
PartState(l, f) == [l EXCEPT ![f] = IF @ = 2 THEN 2 ELSE 1]
ReadPartG(f, k, ok, got, l2, rq) ==
    /\ ~Held /\ reg = "on" /\ ok
    /\ f \in ToSet(sc.pt) /\ k \in 1..2
    /\ got \subseteq GotMax({f})
    \* (a background fetch under way may complete the file from the blob cache at the same time)
    /\ IF bg \in {"stalled", "suspended"} THEN l2[f] \in PartState(lst, f)[f]..2 ELSE l2[f] = PartState(lst, f)[f]
    /\ Monotone(l2, {f})
    /\ fetched' = fetched \cup got
    /\ lst' = l2
    /\ last' = [act |-> "ReadPart", f |-> f, k |-> k, ok |-> ok, req |-> rq]
    /\ UNCHANGED <<sc, pc, runner, pf, pfres, psize, pinfo, waiter, wc, bc, brunner, bg, bgres, prio, reg>>
ReadPart(f, k) ==
    LET miss == IF lst[f] = 2 THEN {} ELSE Span(f) \ fetched
        one == IF miss = {} THEN {} ELSE {CHOOSE x \in miss : \A y \in miss : IF k = 1 THEN x <= y ELSE x >= y}
    IN ReadPartG(f, k, TRUE, one, PartState(lst, f), one)

RegistryOff ==
    /\ AllowReg /\ reg = "on" /\ ~Held
    /\ sc.ro = 2 \/ (sc.ro = 1 /\ bg = "end")
    /\ reg' = "off"
    /\ UNCHANGED <<sc, pc, runner, pf, pfres, psize, pinfo, waiter, wc, bc, brunner, bg, bgres, prio, fetched, lst>>
    /\ last' = [act |-> "RegistryOff", req |-> {}]

RegistryOn ==
    /\ AllowReg /\ reg = "off" /\ ~Held
    /\ reg' = "on"
    /\ UNCHANGED <<sc, pc, runner, pf, pfres, psize, pinfo, waiter, wc, bc, brunner, bg, bgres, prio, fetched, lst>>
    /\ last' = [act |-> "RegistryOn", req |-> {}]

Next ==
    \/ \E p \in 1..sc.np : PrefetchCall(p) \/ PrefetchReturn(p)
    \/ Range \/ AsyncThreshold \/ BlobCacheStall
    \/ \E r \in {"ok", "fail"} : BlobCache(r)
    \/ \E r \in {"ok", "fail", "cachefail"} : ReaderCache(r) \/ BgFinish(r)
    \/ PrefetchEnd
    \/ \E w \in 1..sc.nw : WaitCall(w) \/ WaitReturn(w) \/ WaitTimeout(w)
    \/ \E b \in 1..sc.nb : BgCall(b) \/ BgReturn(b)
    \/ BgStall \/ PrioBegin \/ PrioEnd
    \/ \E f \in Files : Read(f)
    \/ \E f \in ToSet(sc.pt), k \in 1..2 : ReadPart(f, k)
    \/ RegistryOff \/ RegistryOn

Spec == Init /\ [][Next]_vars

\* fairness for the liveness part of WaitReturns: only the waiter's own two branches
\* (the liveness configuration uses scenarios with exactly two waiters)
FairSpec == Spec /\ \A w \in 1..2 : WF_vars(WaitReturn(w)) /\ WF_vars(WaitTimeout(w))

----------------------------------------------------------------------------
(* Property C15. Every formula speaks about the observable part only       *)
(* (sc, last, pf/pfres/bg/bgres as reported by the calls, waiter, psize,   *)
(* pinfo, fetched), so the monitor evaluates the same formulas on states   *)
(* recorded from the implementation.                                       *)

PrefetchDoneOK == pf = "end" /\ pfres = "ok"
BgDoneOK == bg = "end" /\ bgres = "ok"
\* ("Drain" is not an action: the Go driver reports under this name what the rest of a prefetch did after a walk ended)
PrefetchActs == {"PrefetchCall", "Range", "AsyncThreshold", "BlobCacheStall", "BlobCache", "ReaderCache",
                 "PrefetchEnd", "PrefetchReturn", "Drain"}

\* after prefetch of a layer with a prefetch landmark has completed, reading any prioritized file completely
\* causes no further registry request
AfterPrefetchPrioritizedReadsAreLocal ==
    (last.act = "Read" /\ sc.lm = "prefetch" /\ PrefetchDoneOK /\ last.f \in Prio) => (last.req = {} /\ last.ok)

\* a layer with a no-prefetch landmark triggers no prefetch traffic
NoPrefetchLandmarkNoTraffic ==
    (sc.lm = "noprefetch" /\ last.act \in PrefetchActs) => (last.req = {} /\ pinfo = 0)

\* without landmarks the configured size, capped at the blob size, is the range; once fetched it is in the blob cache
ConfiguredSizeCapped ==
    /\ (sc.lm = "none" /\ psize # -1) => psize = Min(sc.cfg, sc.size)
    /\ (sc.lm = "prefetch" /\ psize # -1) => psize = sc.loff
    /\ pinfo <= sc.size
    /\ (sc.lm # "noprefetch" /\ pinfo > 0) => (pinfo = Expected /\ Cover(Expected) \subseteq fetched)

\* ... and nothing but the range and the files whose first chunk lies in it is requested by prefetch
PrefetchTrafficConfined ==
    (last.act \in {"BlobCacheStall", "BlobCache", "ReaderCache", "PrefetchEnd", "Drain"} /\ sc.lm # "noprefetch") =>
        last.req \subseteq (Cover(Expected) \cup UnionOf({f \in Files : sc.off[f] < Expected}, LAMBDA f : Hull(Span(f))))

\* after background fetch has completed successfully every regular file can be read in full with the registry
\* unreachable (a request, even an answered one, means the read would fail offline)
AfterBackgroundFetchOfflineReadable ==
    (last.act = "Read" /\ BgDoneOK) => (last.ok /\ last.req = {})

\* success means cached: when the caching walk of prefetch reports success every file whose first chunk lies in the
\* range is in the chunk cache, when background fetch reports success every regular file is ("make later reads local";
\* with the blob cache in place the bytes fetched for a chunk that could not be added are still readable offline, so
\* this is stronger than AfterBackgroundFetchOfflineReadable)
SuccessMeansCached ==
    /\ (last.act = "BgFinish" /\ last.r = "ok") => \A f \in Files : lst[f] = 2
    /\ (last.act = "ReaderCache" /\ last.r = "ok") => \A f \in Files : sc.off[f] < Expected => lst[f] = 2

\* waiting returns when prefetch ends or fails: the waiter is closed whenever prefetch is over ...
WaiterClosedAtEnd == pf = "end" => waiter = "closed"
\* ... Wait returns nil exactly when the waiter is closed, and the waiter is closed only when that is due: prefetch is
\* over, or it went on in the background because the EFFECTIVE range (landmark offset, or configured size capped at the
\* blob size) exceeds PrefetchAsyncSize, or a caller's timeout closed it. (Check relies on this: "prefetch has
\* completed" is what a nil Wait tells it before the container reads its prioritized files.)
Effective == IF sc.lm = "noprefetch" THEN 0 ELSE Expected
WaitNilOnlyIfEndedOrAsync ==
    waiter = "closed" =>
        \/ pf = "end"
        \/ sc.thr > 0 /\ Effective > sc.thr /\ pf \in {"ranged", "thresh", "stalled", "fetched", "finishing"}
        \/ \E w \in 1..sc.nw : wc[w] = "timeout"
\* ... a wait on a closed waiter returns nil, a wait never returns nil while the waiter is open ...
WaitResult ==
    /\ last.act = "WaitReturn" => last.res = "ok"
    /\ last.act = "WaitTimeout" => last.res = "timeout"
\* ... and a waiting caller can always move (absence of a state in which a waiter blocks forever)
WaitNeverStuckE ==
    \A w \in 1..sc.nw : wc[w] = "waiting" => (ENABLED WaitReturn(w) \/ ENABLED WaitTimeout(w))
\* (the same without ENABLED, which is slow in TLC; the liveness configuration checks the ENABLED form)
WaitNeverStuck ==
    \A w \in 1..sc.nw : wc[w] = "waiting" => (waiter = "closed" \/ (waiter = "open" /\ WaitHonoursTimeout))
\* liveness (FairSpec): every wait returns
WaitReturns == \A w \in 1..2 : (wc[w] = "waiting") ~> (wc[w] \in {"ok", "timeout"})

\* internal consistency
TypeOK ==
    /\ pf \in {"none", "started", "ranged", "thresh", "stalled", "fetched", "finishing", "end"}
    /\ pfres \in {"none", "ok", "fail"} /\ bgres \in {"none", "ok", "fail"}
    /\ bg \in {"none", "started", "stalled", "suspended", "end"}
    /\ waiter \in {"open", "closed"} /\ reg \in {"on", "off"} /\ prio \in 0..1
    /\ fetched \subseteq 0..(NB - 1)
    /\ \A f \in Files : lst[f] \in 0..2
OnceRunsOnce == (runner = 0) = (pf = "none") /\ (brunner = 0) = (bg = "none")
=============================================================================

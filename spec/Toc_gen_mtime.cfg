CONSTANTS
    EPaths = {"/", "/a"}
    ETypes = {"dir", "reg", "symlink"}
    MaxEntries = 1
    FocusMax = 1
    Sizes = {1}
    Lays = {"one"}
    Digs = {"both"}
    Attrs = {"t1600", "t1677", "t2263", "t2500", "t2999", "tz9", "tsub", "t0001"}
    Spells = {"plain"}
    WsSet = {0}
    AllowDupDir = TRUE
    AllowUnsorted = TRUE
    AllowLinkFirst = TRUE
    DupDirCountsTwice = FALSE
    LastChunkToEnd = TRUE
INIT GenInit
NEXT GenNext
INVARIANTS TreeOK LeavesHaveNoKids SameIsEquivalence LinkCountsAddUp ChunksCover StreamsOK HardLinksResolve
CHECK_DEADLOCK FALSE

\* exhaustive: 3 goroutines x 2 names x 2 Lock/Unlock rounds each, the code's order
CONSTANTS
    Gor = {1, 2, 3}
    Names = {"a", "b"}
    Rounds = 2
    DeleteOnlyAtZero = TRUE
    CountWaiters = TRUE
    OuterMutex = TRUE
    UnlockOrder = "dec_first"
    AllowAbsent = TRUE
    NilMapGuard = TRUE
INIT Init
NEXT Next
VIEW core
INVARIANTS TypeOK MutualExclusionPerName IndependentNames MapNeverLeaks RefsAccount SameObject PairedUnlockNeverPanics OuterNeverStuck
PROPERTIES UnlockOfUnheldPanicsOrIsNoop
CHECK_DEADLOCK FALSE

------------------------------ MODULE LayerGen ------------------------------
(* Generation config: TLC prints every transition of the (small) state     *)
(* graph as JSON; tools/vlib.py turns the edge list into walks that cover  *)
(* every edge, which the Go driver replays against a real layer.Resolver.  *)
EXTENDS Layer, Json

CoreRec  == [lock |-> lock, lc |-> lc, bc |-> bc, layers |-> layers, blobs |-> blobs, fsd |-> fsd, hd |-> hd,
             hs |-> hs, nres |-> nres, nfault |-> nfault, nbreak |-> nbreak]
CoreRecP == [lock |-> lock', lc |-> lc', bc |-> bc', layers |-> layers', blobs |-> blobs', fsd |-> fsd', hd |-> hd',
             hs |-> hs', nres |-> nres', nfault |-> nfault', nbreak |-> nbreak']

GenInit == Init /\ PrintT("VINIT " \o ToJson(CoreRec))
GenNext == Next /\ PrintT("VEDGE " \o ToJson([from |-> CoreRec, last |-> last', to |-> CoreRecP]))
=============================================================================

CONSTANTS
    Sizes = {0}
    Chunks = {1}
    Readers = {"r1", "r2", "r3"}
    Ops = {"read", "cache"}
    Pers = {"multi", "multirev", "first", "super", "whole", "short", "shift", "half", "e400", "e403", "e403f", "err"}
    MaxLen = 1000000
    MaxOps = 1000000
    MaxReq = 1000000
    MaxLoss = 1000000
    MaxCFail = 1000000
    MaxInflight = 1
    LossMidCall = TRUE
    Segment = FALSE
    AllSeenCheck = TRUE
    AlignCheck = TRUE
    WriterVariant = "code"
    RetryFreshWriter = FALSE
SPECIFICATION TraceSpec
CONSTRAINT HighWater
INVARIANTS RegionSetIsUnion FetchedSizeIsDistinctBytes FetchedSizeLeSize CacheExact
PROPERTIES ReadExact ErrOrExact
POSTCONDITION TraceAccepted
CHECK_DEADLOCK FALSE

CONSTANTS
    NC = 2
    NWk = 0
    NRd = 0
    MaxAlter = 0
    MaxVerify = 0
    Kinds = {"s", "k"}
    Tocs = {"D"}
    Args = {"D", "W"}
    AtomicRead = TRUE
    AtomicVerify = TRUE
    WithSkip = TRUE
    WithPass = TRUE
    WithTry = TRUE
    DecideUnderLock = TRUE
    AbortWhenProhibited = TRUE
    VerifyBeforeCache = TRUE
    RecheckCachedLayer = TRUE
    PassVerifies = TRUE
    TocLabelFirst = TRUE
    WithMount = FALSE
    FsCfgs = {"--"}
SPECIFICATION MonSpec
INVARIANTS MountImpliesToc ServedAreGood NoBadStaysCached FailedReadLeavesNothing
CHECK_DEADLOCK FALSE

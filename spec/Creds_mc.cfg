\* exhaustive: 2 tags of one repository, 4 hosts, 6 auth forms, 3 chains, <= 3 pull requests
CONSTANTS
    Images = {"reg.example.com/app:1", "reg.example.com/app:2"}
    Hosts = {"reg.example.com", "docker.io", "registry-1.docker.io", "mirror.example.com"}
    Forms = {"up", "up@reg", "tok@dio", "b64@reg", "nil", "bad64"}
    Chains = {"cri", "cri+static", "static+cri"}
    MaxPulls = 3
    ExactRefKey = TRUE
    ServerCheck = TRUE
    DeleteOnRemove = TRUE
    FirstWins = TRUE
INIT Init
NEXT Next
VIEW vcore
INVARIANTS ConfigIsLatest NothingBeforeConnect
PROPERTIES OnlyLatestPullOfExactRef ServerAddressMustMatch GoneAfterRemove FirstNonEmptyWins
CHECK_DEADLOCK FALSE

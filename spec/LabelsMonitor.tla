--------------------------- MODULE LabelsMonitor ---------------------------
(* Monitor (soundness rule, DESIGN 2.5) for C20: no enabling conditions and *)
(* no use of the writer / reader operators. Each recorded case is loaded    *)
(* into the variables - wl := the labels the REAL handler wrote, lbl := the *)
(* tokens the REAL reader received, res := what the REAL reader returned -  *)
(* and only the property formulas of Labels.tla are evaluated on them.      *)
(* Every false formula is printed as VVIOL (the run goes on, so one finding *)
(* cannot mask another); tools/props/C20.py turns them into the verdict.    *)
EXTENDS Labels, TLCExt

VARIABLE l
mvars == <<vars, l>>

TraceLog == ndJsonDeserialize("trace.ndjson")
Ev == TraceLog[l]
C == Ev.case

MonInit == Init /\ l = 1

Viol(name, holds) ==
    IF holds THEN TRUE ELSE PrintT("VVIOL " \o ToJson([line |-> l, id |-> Ev.id, formula |-> name]))

\* labels.Validate as containerd itself answered for each produced label, and the same rule on the recorded lengths
MonValidateOK == \A k \in DOMAIN Ev.wl : Ev.wl[k].valid /\ Ev.wl[k].klen + Ev.wl[k].len <= MaxSize
\* the prefetch size as fs.Mount would parse it from the untampered labels
MonPrefetchConsumed == (C.tam = <<>>) => Ev.pfread = C.pf

MonNext ==
    /\ l <= Len(TraceLog)
    /\ l' = l + 1
    /\ phase' = "read"
    /\ cs' = [man |-> C.man, ref |-> C.ref, pf |-> C.pf, fl |-> C.fl]
    /\ tgt' = C.t /\ tam' = C.tam /\ rd' = C.rd
    /\ wl' = [k \in DOMAIN Ev.wl |-> Val(Ev.wl[k].items, Ev.wl[k].len)]
    /\ lbl' = [k \in DOMAIN Ev.tl |-> Val(Ev.tl[k], 0)]
    /\ res' = Ev.res
    /\ lbl2' = [k \in DOMAIN Ev.tla |-> Val(Ev.tla[k], 0)]
    /\ res2' = Ev.res2
    /\ Viol("AllLabelsValid", AllLabelsValid' /\ MonValidateOK)
    /\ Viol("RoundTrip", RoundTrip')
    /\ Viol("NeighbourUrlsPositional", NeighbourUrlsPositional')
    /\ Viol("PrefetchSizeRoundTrips", PrefetchSizeRoundTrips' /\ MonPrefetchConsumed)
    /\ Viol("UrlsOwnOrNone", UrlsOwnOrNone')
    /\ Viol("ReaderLeavesLabels", ReaderLeavesLabels')
    /\ Viol("RoundTripSecondRead", RoundTripSecondRead')
    /\ Viol("MalformedMandatoryRejected", MalformedMandatoryRejected')

MonSpec == MonInit /\ [][MonNext]_mvars

MonDone == IF l = Len(TraceLog) + 1 THEN PrintT("VDONE " \o ToString(Len(TraceLog))) ELSE TRUE
=============================================================================

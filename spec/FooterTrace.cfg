CONSTANTS
    Kinds = {"estargz"}
    BLens = {"gt"}
    Muts = {"none"}
    Offs = {"inside"}
    Lens = {"ok"}
    Opts = {"none"}
    GuardLen = TRUE
SPECIFICATION TraceSpec
INVARIANT Done
CHECK_DEADLOCK FALSE

--------------------------- MODULE PrefetchMonitor ---------------------------
(* Monitor for property C15: no enabling conditions. Every recorded event  *)
(* loads what the implementation reported (call results, requested         *)
(* registry chunks, waiter closed?, Info().PrefetchSize, chunks served)    *)
(* into the observable variables; the property formulas of Prefetch.tla    *)
(* and the timing formulas below are evaluated on these states. Works on   *)
(* replay traces and on free-running traces (which contain only Reset,     *)
(* WaitReturn/WaitTimeout, PrefetchEnd, BgFinish, RegistryOff, Read).      *)
EXTENDS Prefetch, Json

VARIABLES l, wcl       \* wcl[w]: the waiter was already closed when w called Wait
mvars == <<vars, l, wcl>>
TraceLog == ndJsonDeserialize("trace.ndjson")
Ev == TraceLog[l]
Has(f) == f \in DOMAIN Ev
Fld(f, d) == IF Has(f) THEN Ev[f] ELSE d

Dummy == [id |-> "-", nf |-> 0, off |-> <<>>, span |-> <<>>, pre |-> <<>>, prf |-> <<>>, prio |-> <<>>, lm |-> "none", loff |-> 0,
          size |-> 1, cs |-> 1, cfg |-> 0, thr |-> 0, f0 |-> <<>>, rd |-> <<>>, ro |-> 2, pt |-> <<>>, free |-> FALSE, haslst |-> FALSE, np |-> 0, nw |-> 0, nb |-> 0, tmo |-> 1000]
Slack == 10000     \* ms a wait may exceed the configured timeout by (scheduling noise on a loaded machine: 4.6 s were seen at
                   \* load 25 next to race-instrumented megabyte reads), far below "blocks forever"

MonInit ==
    /\ sc = Dummy /\ pc = <<>> /\ runner = 0 /\ pf = "none" /\ pfres = "none" /\ psize = -1 /\ pinfo = 0
    /\ waiter = "open" /\ wc = <<>> /\ bc = <<>> /\ brunner = 0 /\ bg = "none" /\ bgres = "none" /\ prio = 0
    /\ fetched = {} /\ lst = <<>> /\ reg = "on" /\ last = [act |-> "Init", req |-> {}]
    /\ l = 1 /\ wcl = <<>>

MonNext ==
    /\ l <= Len(TraceLog)
    /\ l' = l + 1
    /\ UNCHANGED <<pc, runner, bc, brunner, prio>>
    /\ sc' = IF Ev.ev = "Reset" THEN Ev.sc ELSE sc
    /\ pf' = CASE Ev.ev = "Reset" -> "none"
               [] Ev.ev \in {"PrefetchEnd", "Drain"} -> "end"      \* Drain: the rest of the prefetch ran to its end unobserved
               [] Ev.ev = "Range" -> "ranged"            \* effective range decided, threshold not yet looked at
               [] Ev.ev \in {"AsyncThreshold", "BlobCacheStall", "BlobCache", "ReaderCache"} -> "running"
               [] OTHER -> pf
    /\ pfres' = CASE Ev.ev = "Reset" -> "none" [] Ev.ev = "PrefetchEnd" -> Ev.res [] Ev.ev = "Drain" -> "drained" [] OTHER -> pfres
    /\ bg' = CASE Ev.ev = "Reset" -> "none" [] Ev.ev = "BgFinish" -> "end" [] OTHER -> bg
    /\ bgres' = CASE Ev.ev = "Reset" -> "none" [] Ev.ev = "BgFinish" -> Ev.r [] OTHER -> bgres
    /\ psize' = CASE Ev.ev = "Reset" -> -1 [] Ev.ev = "Range" -> Ev.size [] OTHER -> psize
    /\ pinfo' = Ev.obs.pinfo
    /\ waiter' = IF Ev.obs.wclosed THEN "closed" ELSE "open"
    /\ fetched' = ToSet(Ev.obs.fetched)
    /\ lst' = Ev.obs.lst
    /\ reg' = CASE Ev.ev \in {"Reset", "RegistryOn"} -> "on" [] Ev.ev = "RegistryOff" -> "off" [] OTHER -> reg
    /\ wc' = CASE Ev.ev = "Reset" -> [w \in 1..Ev.sc.nw |-> "idle"]
               [] Ev.ev = "WaitCall" -> [wc EXCEPT ![Ev.w] = "waiting"]
               [] Ev.ev \in {"WaitReturn", "WaitTimeout", "WaitHung"} /\ Ev.w \in DOMAIN wc -> [wc EXCEPT ![Ev.w] = Ev.res]
               [] OTHER -> wc
    /\ wcl' = CASE Ev.ev = "Reset" -> [w \in 1..Ev.sc.nw |-> FALSE]
                [] Ev.ev = "WaitCall" -> [wcl EXCEPT ![Ev.w] = (waiter = "closed")]   \* closed BEFORE the call
                [] OTHER -> wcl
    /\ last' = [act |-> Ev.ev, req |-> ToSet(Fld("req", <<>>)), f |-> Fld("f", 0), ok |-> Fld("ok", TRUE),
                res |-> Fld("res", "-"), r |-> Fld("r", "-"), want |-> Fld("want", "-"), at |-> Fld("at", "-"), by |-> Fld("by", "-"), ms |-> Fld("ms", 0), w |-> Fld("w", 0)]

MonSpec == MonInit /\ [][MonNext]_mvars

\* the monitor's pf is "running" between Range and PrefetchEnd; ConfiguredSizeCapped's last conjunct needs "fetched"/"end"
MonConfiguredSizeCapped ==
    /\ (sc.lm = "none" /\ psize # -1) => psize = Min(sc.cfg, sc.size)
    /\ (sc.lm = "prefetch" /\ psize # -1) => psize = sc.loff
    /\ pinfo <= sc.size
    /\ (sc.lm # "noprefetch" /\ pinfo > 0) => (pinfo = Expected /\ Cover(Expected) \subseteq fetched)

\* "has completed" must be reachable: when the registry answers every request (want = "ok": the driver imposed no
\* failure) the fetch of the range, the caching walk and the background fetch succeed - on every metadata store
MonCompletes ==
    \* ("hung": the call had not come back when the driver's patience ended - reported as inconclusive, not judged here)
    /\ (last.act \in {"BlobCache", "ReaderCache", "BgFinish"} /\ last.want = "ok" /\ last.r # "hung") => last.r = "ok"
    /\ (last.act = "PrefetchEnd" /\ last.want = "ok" /\ last.res # "hung") => last.res = "ok"

\* Prefetch!SuccessMeansCached on the chunk-cache state probed on disk (where the cache is a directory)
MonSuccessMeansCached == sc.haslst => SuccessMeansCached

\* Wait returns nil only when that is due (Prefetch!WaitNilOnlyIfEndedOrAsync on the recorded states: the waiter
\* channel is probed after every step, wc holds the recorded wait outcomes, Effective is computed from the measured
\* layout and the configuration). In a free-running trace the steps of prefetch are not recorded: the background
\* excuse then applies at any time before the end.
MonWaitNilOnlyIfEndedOrAsync ==
    /\ (~sc.free /\ waiter = "closed") =>
            \/ pf = "end"
            \/ sc.thr > 0 /\ Effective > sc.thr /\ pf \in {"ranged", "running"}
            \/ \E w \in DOMAIN wc : wc[w] = "timeout"
    \* free-running traces: the hook in waiter.done() reports who closes the waiter (a waiting call's timeout branch, or
    \* the prefetch goroutine) and the last gate the prefetch goroutine had passed: the end of the body (no-prefetch
    \* return, failed fetch, end of the caching walk), or the prefetch body under way with an effective range above the threshold (when exactly the body releases the
    \* waiters in that case is not part of the statement)
    /\ (last.act = "WaiterClosed" /\ last.by = "prefetch") =>
            \/ last.at \in {"layer.prefetch.noprefetch", "layer.prefetch.fetched", "layer.prefetch.cached"}
            \/ last.at \in {"layer.prefetch.start", "layer.prefetch.range"} /\ sc.thr > 0 /\ Effective > sc.thr

\* waiting is bounded: no wait blocks forever, none exceeds the timeout by more than scheduling noise,
\* and a timeout is not reported early
MonWaitBounded ==
    last.act \in {"WaitReturn", "WaitTimeout", "WaitHung"} =>
        /\ last.act # "WaitHung"
        /\ last.ms <= sc.tmo + Slack
        /\ last.act = "WaitTimeout" => last.ms >= sc.tmo - 1
=============================================================================

CONSTANTS
    Images = {"reg.example.com/app:1", "reg.example.com/app:2"}
    Hosts = {"reg.example.com", "docker.io", "registry-1.docker.io", "mirror.example.com"}
    Forms = {"up", "up@reg", "up@dio", "up@bare", "up@dhub", "tok", "tok@dio", "b64", "b64@reg", "bad64", "empty@reg", "nil"}
    Chains = {"cri", "cri+static", "static+cri"}
    MaxPulls = 1000000
    ExactRefKey = TRUE
    ServerCheck = TRUE
    DeleteOnRemove = TRUE
    FirstWins = TRUE
SPECIFICATION TraceSpec
CONSTRAINT HighWater
INVARIANTS ConfigIsLatest NothingBeforeConnect
PROPERTIES OnlyLatestPullOfExactRef ServerAddressMustMatch GoneAfterRemove FirstNonEmptyWins
POSTCONDITION TraceAccepted
CHECK_DEADLOCK FALSE

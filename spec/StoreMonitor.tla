--------------------------- MODULE StoreMonitor ---------------------------
(* Monitor (soundness rule, DESIGN 2.5): no enabling conditions at all. The *)
(* next recorded call and the recorded projection of the implementation     *)
(* state are loaded into the observable variables, and only the formulas of *)
(* property C16 are evaluated on what the IMPLEMENTATION showed. rc is not  *)
(* observable and no formula reads it. Events without a projection (racing  *)
(* runs) keep the previous state and set full = FALSE; the formulas that    *)
(* compare the state before and after a call are then not applicable and    *)
(* only the outcome formulas (UnknownDigestFails, and LookupSucceeds... in  *)
(* runs without registry failures) are evaluated for those calls.           *)
EXTENDS Store, Json, TLCExt

VARIABLES l, full, held
mvars == <<vars, l, full, held>>

TraceLog == ndJsonDeserialize("trace.ndjson")
Ev == TraceLog[l]
Has(f) == f \in DOMAIN Ev
SeqRange(s) == {s[i] : i \in 1..Len(s)}

\* history bookkeeping reconstructed from the calls alone: uses of (ref, toc) that have not been released yet
HeldInit == [r \in Refs |-> [t \in T |-> 0]]
MonInit == Init /\ l = 1 /\ full = TRUE /\ held = HeldInit

MonNext ==
    /\ l <= Len(TraceLog)
    /\ l' = l + 1
    /\ full' = Has("layer")
    /\ held' = IF Ev.ev = "Reset" THEN HeldInit
               ELSE IF Ev.ev = "Use" THEN [held EXCEPT ![Ev.r][Ev.t] = @ + 1]
               ELSE IF Ev.ev = "Release" THEN [held EXCEPT ![Ev.r][Ev.t] = IF @ > 0 THEN @ - 1 ELSE 0]
               ELSE held
    /\ last' = IF Ev.ev = "Reset" THEN [act |-> "Init"]
               ELSE IF Ev.ev = "Lookup"
               THEN [act |-> "Lookup", r |-> Ev.r, t |-> Ev.t, kind |-> Ev.kind, fail |-> SeqRange(Ev.fail), cancel |-> Ev.cancel, res |-> Ev.res]
               ELSE [act |-> Ev.ev, r |-> Ev.r, t |-> Ev.t, res |-> Ev.res]
    /\ UNCHANGED rc
    /\ IF Has("layer")
       THEN /\ layer' = [r \in Refs |-> [t \in T |-> Ev.layer[r][t]]]
            /\ cnt' = [r \in Refs |-> [t \in T |-> Ev.cnt[r][t]]]
            /\ memo' = [r \in Refs |-> [x \in Own(r) |-> Ev.memo[r][x]]]
            /\ out' = [r \in Refs |-> [x \in Own(r) |-> Ev.out[r][x]]]
            /\ pool' = [r \in Refs |-> Ev.pool[r]]
            /\ kids' = IF Has("kids") THEN [r \in Refs |-> [t \in T |-> SeqRange(Ev.kids[r][t])]] ELSE kids
       ELSE UNCHANGED <<layer, cnt, memo, out, pool, kids>>

MonSpec == MonInit /\ [][MonNext]_mvars

\* state formulas: only on states that were recorded
MonCountNonNegative == full => CountNonNegative
MonHeldWhileCached == full => HeldWhileCached
MonHandlesMatchLayers == full => HandlesMatchLayers
\* a layer under a digest that no layer of the image has, or holding another TOC than its key
MonOnlyOwnCached == full => OnlyOwnCached

\* the use count is the number of uses not yet released (no entry when there is none)
MonCountMatchesUses ==
    full => \A r \in Refs : \A t \in T : IF held[r][t] = 0 THEN cnt[r][t] = NoCnt ELSE cnt[r][t] = held[r][t]

\* step formulas that read the state on both sides: only between two recorded states
Both == full /\ full'
MonNeverDoneWhileUsed ==
    [][Both => \A r \in Refs : \A t \in Own(r) :
          (layer[r][t] /\ cnt'[r][t] # NoCnt /\ cnt'[r][t] >= 1) => (layer'[r][t] /\ out'[r][t] >= out[r][t])]_mvars
\* the same with the uses counted from the calls instead of the implementation's counter
MonUsedLayerStays ==
    [][Both => \A r \in Refs : \A t \in Own(r) :
          (layer[r][t] /\ held'[r][t] >= 1) => (layer'[r][t] /\ out'[r][t] >= out[r][t])]_mvars
MonSuccessMeansCached ==
    [][Both => \A r \in Refs : (IsLayerLookup(last') /\ last'.r = r /\ last'.res = "ok" /\ IsOwn(r, last'.t))
           => (layer'[r][last'.t] /\ out'[r][last'.t] >= 1)]_mvars
MonLastReleaseDropsBookkeeping ==
    [][Both => \A r \in Refs :
         (last'.act = "Release" /\ last'.r = r /\ cnt[r][last'.t] = 1 /\ ImageUses(cnt, r) = 1)
           => /\ Tracked(cnt', r) = {}
              /\ \A x \in Own(r) : memo'[r][x] = "none"
              /\ ~layer'[r][last'.t]
              /\ IsOwn(r, last'.t) => out'[r][last'.t] = 0]_mvars
MonNextLookupResolvesAgain ==
    [][Both => \A r \in Refs :
         (IsLayerLookup(last') /\ last'.r = r /\ IsOwn(r, last'.t) /\ last'.t \notin last'.fail /\ ~last'.cancel
              /\ ~layer[r][last'.t] /\ Tracked(cnt, r) = {} /\ memo[r][last'.t] # "err"
              /\ ~(Fuse /\ last'.kind \in kids[r][last'.t]))
           => (last'.res = "ok" /\ layer'[r][last'.t] /\ memo'[r][last'.t] = "ok" /\ out'[r][last'.t] = 1)]_mvars
\* the memo is read before the call: in a racing run without registry failures no error can be remembered, and the
\* stale state (all "none" since the Reset) says the same
MonLookupSucceedsIffTocInImage ==
    [][\A r \in Refs :
         (IsLayerLookup(last') /\ last'.r = r /\ IsOwn(r, last'.t) /\ last'.t \notin last'.fail /\ ~last'.cancel
              /\ memo[r][last'.t] # "err")
           => last'.res = "ok"]_mvars
=============================================================================

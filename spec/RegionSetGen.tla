---------------------------- MODULE RegionSetGen ----------------------------
(* Generation config for the binding of RegionSet.tla to the Go regionSet:  *)
(* every transition (slice, region added) of RegionSetCheck is printed; the  *)
(* walks covering every edge are replayed on a REAL fs/remote regionSet      *)
(* (rs.add(region{b,e}); rs.rs and rs.totalSize() recorded after each add).  *)
EXTENDS RegionSetCheck, Json

GenInit == RInit /\ PrintT("VINIT " \o ToJson(rs))
GenNext == RNext /\ PrintT("VEDGE " \o ToJson([from |-> rs, last |-> last', to |-> rs']))
=============================================================================

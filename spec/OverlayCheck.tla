--------------------------- MODULE OverlayCheck ---------------------------
(* TLC evaluates, for EVERY stack of at most MaxLayers layers of a small    *)
(* layer space, the equation of property C07:                               *)
(*     OverlayMerge(<<Served(layer) ...>>) = ApplyOCI(<<layer ...>>)         *)
(* Each stack is one state (a transition puts one more layer on top).       *)
(* Layer space: root with file a, whiteout .wh.a, entry d (absent / file /  *)
(* directory), whiteout .wh.d, a prefetch landmark, the prefixed whiteout   *)
(* .wh..wh.foo; directory d with file a, whiteout .wh.a, opaque marker and  *)
(* a file that merely has a landmark's name.  Excluded(layer) as stated.    *)
EXTENDS Overlay, TLC

CONSTANTS
    MaxLayers,
    TopAChoices,    \* subset of BOOLEAN: root carries the file a
    LmChoices,      \* subset of {"none", ".prefetch.landmark", ".no.prefetch.landmark"}: landmark in the root
    PfChoices,      \* subset of BOOLEAN: root carries .wh..wh.foo
    SubLmChoices,   \* subset of BOOLEAN: d/ carries a file named .prefetch.landmark
    Modes,
    RealWins,       \* negative controls of the translation
    OpaqueOn,
    MountKeyMatches \* FALSE: the mount honours the xattr the layer was NOT configured for

VARIABLES stack
vars == <<stack>>

TopRaw(a, wha, d, whd, lm, pf) ==
    LET ns == (IF a THEN {"a"} ELSE {}) \cup (IF wha THEN {".wh.a"} ELSE {})
              \cup (IF d # "none" THEN {"d"} ELSE {}) \cup (IF whd THEN {".wh.d"} ELSE {})
              \cup (IF lm # "none" THEN {lm} ELSE {}) \cup (IF pf THEN {".wh..wh.foo"} ELSE {})
    IN [n \in ns |-> IF n = "d" THEN d ELSE "reg"]
SubRaw(a, wha, opq, lm) ==
    LET ns == (IF a THEN {"a"} ELSE {}) \cup (IF wha THEN {".wh.a"} ELSE {})
              \cup (IF opq THEN {Opq} ELSE {}) \cup (IF lm THEN {PrefetchLM} ELSE {})
    IN [n \in ns |-> "reg"]

FlatLayers == {[top |-> TopRaw(a, wha, d, whd, lm, pf), sub |-> Empty] :
                 a \in TopAChoices, wha \in BOOLEAN, d \in {"none", "reg"}, whd \in BOOLEAN,
                 lm \in LmChoices, pf \in PfChoices}
DirLayers == {[top |-> TopRaw(a, wha, "dir", whd, lm, pf), sub |-> [x \in {"d"} |-> SubRaw(sa, swha, sopq, slm)]] :
                 a \in TopAChoices, wha \in BOOLEAN, whd \in BOOLEAN, lm \in LmChoices, pf \in PfChoices,
                 sa \in BOOLEAN, swha \in BOOLEAN, sopq \in BOOLEAN, slm \in SubLmChoices}
LayerSpace == {l \in FlatLayers \cup DirLayers : ~Excluded(l)}

\* one state per stack of 0..MaxLayers layers (a transition puts one more layer on top)
Init == stack = <<>>
Next == /\ Len(stack) < MaxLayers
        /\ \E l \in LayerSpace : stack' = Append(stack, l)

\* the served form of every layer of the space, per mode (evaluated once)
ServedOf == [l \in LayerSpace |-> [m \in Modes |-> ServedG(l, m, RealWins, OpaqueOn)]]

MountKey(mode) == IF MountKeyMatches THEN KeysOf(mode)
                  ELSE OpaqueKeys \ KeysOf(mode)

MergeEqualsApply ==
    \A mode \in Modes : \A key \in MountKey(mode) :
        OverlayMerge([i \in 1..Len(stack) |-> ServedOf[stack[i]][mode]], key) = ApplyOCI(stack)

\* sanity of the operators themselves (not a property of the code): a single layer applied to nothing is its
\* own normal entries
SingleLayerSane ==
    Len(stack) = 1 => DOMAIN ApplyOCI(stack).top = NormalNames(stack[1].top, TRUE)
=============================================================================

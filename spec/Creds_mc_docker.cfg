\* exhaustive: a docker.io image under three spellings + one other registry, docker.io aliases, all 12 auth forms, <= 2 pulls
CONSTANTS
    Images = {"alpine", "docker.io/library/alpine", "docker.io/library/alpine:latest", "reg.example.com/app:1"}
    Hosts = {"reg.example.com", "docker.io", "registry-1.docker.io", "index.docker.io", "mirror.example.com"}
    Forms = {"up", "up@reg", "up@dio", "up@bare", "up@dhub", "tok", "tok@dio", "b64", "b64@reg", "bad64", "empty@reg", "nil"}
    Chains = {"cri", "cri+static", "static+cri"}
    MaxPulls = 2
    ExactRefKey = TRUE
    ServerCheck = TRUE
    DeleteOnRemove = TRUE
    FirstWins = TRUE
INIT Init
NEXT Next
VIEW vcore
INVARIANTS ConfigIsLatest NothingBeforeConnect
PROPERTIES OnlyLatestPullOfExactRef ServerAddressMustMatch GoneAfterRemove FirstNonEmptyWins
CHECK_DEADLOCK FALSE

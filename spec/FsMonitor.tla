----------------------------- MODULE FsMonitor -----------------------------
(* Monitor (DESIGN 2.5): no enabling conditions.  Every recorded event is loaded; the property formulas of Fs.tla are     *)
(* restated over what the IMPLEMENTATION showed (projection `obs', results, Do/Done counts) plus history bookkeeping:     *)
(* which calls are in flight on which mountpoint, with which label variant a mountpoint was last mounted, how many         *)
(* prioritized brackets of fs.go are open.  Works on the step-by-step replay traces (events = spec steps), on the         *)
(* free-running traces (CallBegin/CallEnd/Do/Done/BgStart in hook order, projection at the quiet end) and on the          *)
(* end-to-end traces through the real snapshotter (SnCall).                                                               *)
EXTENDS Integers, Sequences, FiniteSets, TLC, Json

VARIABLES l, ev, obs, infl, mlab, pri, cfg
mvars == <<l, ev, obs, infl, mlab, pri, cfg>>
TraceLog == ndJsonDeserialize("trace.ndjson")
Ev == TraceLog[l]
Has(f) == f \in DOMAIN Ev
AllMPs == {"m1", "m2", "m3"}
NoObs == [none |-> TRUE]
NoCfg == [allowNoVerif |-> FALSE, disableVerif |-> FALSE, noPrefetch |-> FALSE, noBgFetch |-> FALSE, preRes |-> FALSE]

MonInit == l = 1 /\ ev = [ev |-> "Init"] /\ obs = NoObs /\ infl = {} /\ mlab = [mp \in AllMPs |-> ""] /\ pri = 0 /\ cfg = NoCfg

MonNext ==
    /\ l <= Len(TraceLog)
    /\ l' = l + 1
    /\ ev' = Ev
    /\ obs' = IF Has("obs") THEN Ev.obs ELSE IF Ev.ev = "Reset" THEN NoObs ELSE obs
    /\ cfg' = IF Ev.ev = "Reset" /\ Has("cfg") THEN Ev.cfg ELSE cfg
    /\ infl' = CASE Ev.ev = "Reset" -> {}
                 [] Ev.ev \in {"Call", "CallBegin"} -> infl \cup {[c |-> Ev.c, mp |-> Ev.mp]}
                 [] Ev.ev \in {"Return", "CallEnd"} -> {x \in infl : x.c # Ev.c}
                 [] OTHER -> infl
    /\ mlab' = CASE Ev.ev = "Reset" -> [mp \in AllMPs |-> ""]
                 [] Ev.ev \in {"Call", "CallBegin"} /\ Ev.op = "Mount" -> [mlab EXCEPT ![Ev.mp] = Ev.lab]
                 [] OTHER -> mlab
    /\ pri' = CASE Ev.ev = "Reset" -> 0
                [] Ev.ev = "Do" -> pri + 1
                [] Ev.ev = "Done" -> pri - 1
                [] Ev.ev = "Return" /\ Ev.dones > 0 -> pri - 1
                [] OTHER -> pri
MonSpec == MonInit /\ [][MonNext]_mvars

HasObs == "lmap" \in DOMAIN obs
MPs == DOMAIN obs.lmap
BusyMp(mp) == \E x \in infl : x.mp = mp
Quiescent == infl = {}
ObjOfMp(mp) == obs.hs[obs.lmap[mp]]
Entries(o) == {mp \in MPs : obs.lmap[mp] # 0 /\ ObjOfMp(mp) = o}

\* a mountpoint nobody works on is kernel-mounted (exactly once) iff it is in the layer map; its layer is alive; when
\* nothing is in flight every cached layer object is referenced exactly by the map entries that point to it
MonMountedIffInMap ==
    HasObs =>
      /\ \A mp \in MPs : ~BusyMp(mp) =>
            /\ obs.fuse[mp] = (IF obs.lmap[mp] # 0 THEN 1 ELSE 0)
            /\ obs.lmap[mp] # 0 => ~obs.objs[ObjOfMp(mp)].closed
            /\ obs.lmap[mp] # 0 => \A m2 \in MPs : m2 # mp => obs.lmap[m2] # obs.lmap[mp]
      /\ Quiescent => \A o \in 1..Len(obs.objs) :
            /\ obs.objs[o].cached => obs.objs[o].refs = Cardinality(Entries(o))
            /\ (~obs.objs[o].cached /\ Entries(o) = {}) => obs.objs[o].closed

MonFailedMountLeavesNothing ==
    (ev.ev = "Return" /\ ev.op = "Mount" /\ ev.err # "nil" /\ "obs" \in DOMAIN ev) =>
        (ev.obs.lmap[ev.mp] = 0 /\ ev.obs.fuse[ev.mp] = 0)

Admitted(v, lab) ==
    /\ v # "none"
    /\ lab \in {"ok", "mirror"} => (v = "verified" \/ cfg.disableVerif)
    /\ lab = "skip" => (cfg.allowNoVerif \/ cfg.disableVerif)
    /\ lab \in {"bad", "none", "malformed"} => cfg.disableVerif
    /\ v = "skipped" => (cfg.disableVerif \/ cfg.allowNoVerif)
MonNoUnverifiedMountUnlessAllowed ==
    HasObs => \A mp \in MPs : (obs.lmap[mp] # 0 \/ (obs.fuse[mp] > 0 /\ obs.lmap[mp] # 0)) =>
        Admitted(obs.objs[ObjOfMp(mp)].verif, mlab[mp])

\* Unmount of a registered mountpoint: entry gone, kernel mount gone, the layer evicted from the resolver's cache
MonUnmountReleasesLayer ==
    /\ (ev.ev = "Delete" /\ ev.h # 0 /\ "obs" \in DOMAIN ev) =>
          (ev.obs.lmap[ev.mp] = 0 /\ ~ev.obs.objs[ev.obs.hs[ev.h]].cached)
    /\ (ev.ev = "Return" /\ ev.op = "Unmount" /\ ev.err = "nil" /\ "obs" \in DOMAIN ev) =>
          (ev.obs.lmap[ev.mp] = 0 /\ ev.obs.fuse[ev.mp] = 0)

MonCheckReachesOwnLayer ==
    (ev.ev = "Lookup") => (ev.key = ev.mp /\ ("obs" \in DOMAIN ev => ev.h = ev.obs.lmap[ev.mp]))

MonDoDoneBalanced ==
    /\ (ev.ev \in {"Return", "CallEnd"}) =>
          (IF ev.op = "Unmount" THEN ev.dos = 0 /\ ev.dones = 0 ELSE ev.dos = 1 /\ ev.dones = 1)
    /\ pri >= 0
    /\ Quiescent => pri = 0

\* a background body is started (task manager decided with counter 0) only while no Mount/Check of fs.go is between its Do and Done
MonBackgroundFetchOnlyAfterMountReturns == (ev.ev = "BgStart") => pri = 0

\* end to end: lazy reads through the kernel return the file contents; at quiet points the committed remote snapshots of the
\* snapshotter, the layer map of the filesystem and the kernel mounts under the snapshotter root correspond one to one
\* (extra = active snapshots a remote Prepare mounted and left behind because its target name already existed: Snapshotter.tla PR_Commit "exists")
MonLazyReads == ("reads" \in DOMAIN ev) => \A i \in 1..Len(ev.reads) : ev.reads[i] = "ok"
MonFreeReads == ("read" \in DOMAIN ev) => ev.read = "ok"
MonE2EMapEqualsRemoteSnapshots ==
    (ev.ev = "SnCall" /\ ev.quiet) =>
        IF ev.closed THEN ev.st.stray = 0
        ELSE /\ ev.st.nmap = Len(ev.st.remote) + ev.extra /\ ev.st.mounted = ev.st.nmap /\ ev.st.stray = 0
NoProblem == ev.ev # "Problem"
=============================================================================

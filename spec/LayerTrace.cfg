CONSTANTS
    Names = {"a"}
    NH = 2
    MaxR = 1000000
    MaxFault = 1000000
    MaxBreak = 1000000
    TrackFiles = FALSE
    Extras = TRUE
    SymBreak = FALSE
    ResolveLock = TRUE
    CloseWaitsForHolders = TRUE
    LayerKeepsBlobRef = TRUE
    CleanupOnFailure = TRUE
    IdentityEvict = TRUE
    CloseReleasesBlob = TRUE
    CloseFiles = TRUE
    StampOnlyOnSuccess = TRUE
    BlobReleasedOnCloseError = TRUE
SPECIFICATION TraceSpec
CONSTRAINT HighWater
INVARIANTS HeldLayerServes AllReleasedAndEvictedFreesEverything UnusedBlobIsGone ClosedMeansGone NoOpenFilesAfterClose FailedResolveLeaksNothing
PROPERTIES ReadWorks ReturnedIsCached NoDuplicateCreation ResolveAgainWorks CheckNotFooled
POSTCONDITION TraceAccepted
CHECK_DEADLOCK FALSE

--------------------------- MODULE TarMetaMonitor --------------------------
(* Monitor for property C02 (metadata half): no enabling conditions, no    *)
(* code model. Each recorded answer of the IMPLEMENTATION is loaded into   *)
(* last and MetaEqualsTar compares it with what the archive (logged by     *)
(* Reset) describes. seen collects (path, inode number) of every answer so *)
(* that "hard links share an inode, other names do not" can be stated.     *)
EXTENDS TarMeta, Json

VARIABLES l, seen
mvars == <<vars, l, seen>>
TraceLog == ndJsonDeserialize("trace.ndjson")
Ev == TraceLog[l]

MonInit == T = <<>> /\ P = {<<>>} /\ memo = {} /\ last = [act |-> "Init"] /\ l = 1 /\ seen = {}

Loaded ==
    CASE Ev.ev = "Lookup" -> [act |-> "Lookup", dir |-> Ev.dir, name |-> Ev.name, errno |-> Ev.res.errno, attr |-> Ev.res.attr]
      [] Ev.ev = "Getattr" -> [act |-> "Getattr", path |-> Ev.path, errno |-> Ev.res.errno, attr |-> Ev.res.attr]
      [] Ev.ev = "Readdir" -> [act |-> "Readdir", dir |-> Ev.dir, errno |-> Ev.res.errno,
                               ents |-> {<<e[1], e[2]>> : e \in Range(Ev.res.ents)}, n |-> Len(Ev.res.ents)]
      [] Ev.ev = "Readlink" -> [act |-> "Readlink", path |-> Ev.path, errno |-> Ev.res.errno, target |-> Ev.res.target]
      [] Ev.ev = "Getxattr" -> [act |-> "Getxattr", path |-> Ev.path, key |-> Ev.key, errno |-> Ev.res.errno, val |-> Ev.res.val]
      [] OTHER -> [act |-> Ev.ev]

MonNext ==
    /\ l <= Len(TraceLog)
    /\ l' = l + 1
    /\ T' = IF Ev.ev = "Reset" THEN Ev.tar ELSE T
    /\ P' = IF Ev.ev = "Reset" THEN PathsOf(Ev.tar) ELSE P
    /\ memo' = {}
    /\ last' = Loaded
    /\ seen' = IF Ev.ev = "Reset" THEN {}
               ELSE IF Ev.ev = "Lookup" /\ Ev.res.errno = 0 THEN seen \cup {<<Ev.dir \o <<Ev.name>>, Ev.res.attr.ino>>}
               ELSE IF Ev.ev = "Getattr" /\ Ev.res.errno = 0 THEN seen \cup {<<Ev.path, Ev.res.attr.ino>>}
               ELSE seen

MonSpec == MonInit /\ [][MonNext]_mvars

\* two names were served with the same inode number iff the archive makes them the same inode
InodesAsInTar ==
    \A a, b \in seen : (a[1] \in AllPaths /\ b[1] \in AllPaths) => ((a[2] = b[2]) <=> (Ident(a[1]) = Ident(b[1])))
=============================================================================

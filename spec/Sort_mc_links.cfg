\* exhaustive: directories and hard-link chains (root, a/, a/b, l->a/b, l2->/l); every tar of <= MaxTar distinct entries x every list of <= MaxPrio spellings x allow
CONSTANTS
    UseEntries = {1, 2, 3, 6, 7}
    PrioAlphabet = {"l2", "l", "/a/b", "a/", ""}
    MaxTar = 4
    MaxPrio = 2
    WithLayout = FALSE
    LayoutOpts <- OptsNone
    ImplicitParents = TRUE
    ParentsFirst = TRUE
    TargetFirst = TRUE
    PickedGuard = TRUE
    SkipPickedInRest = TRUE
    LandmarkAfterMoves = TRUE
    LandmarkByList = TRUE
    ReportMissing = TRUE
    DropInputLandmarks = TRUE
    LastDupWins = TRUE
    LandmarkOwnStream = TRUE
    VisitingIsPath = TRUE
INIT Init
NEXT Next
INVARIANTS ExactlyOneLandmark EachAtMostOnce NothingLostOrDuplicated PrioritizedFirstInOrder ParentsAndTargetsBefore RestKeepsRelativeOrder MissingAbortsOrIsReported ImportIsEff
CHECK_DEADLOCK FALSE

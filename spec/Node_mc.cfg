\* exhaustive: every directory content of <= MaxChildren names of the universe x root/sub-directory x opaque mode,
\* every order of calls (the state graph is finite: memoisation flag, memoised listing, in-memory children)
CONSTANTS
    RawU = {"a", ".wh.a", ".wh..wh..opq", ".prefetch.landmark", ".no.prefetch.landmark", "stargz.index.json", ".wh..wh.foo", "l", "c13", "c00"}
    LookupU = {"a", ".wh.a", "foo", ".wh.foo", ".wh..wh.foo", ".wh..opq", ".wh..wh..opq", ".prefetch.landmark", ".no.prefetch.landmark", "stargz.index.json", "zz", ".stargz-snapshotter", "l", "c13", "c00"}
    MaxChildren = 3
    ExtraContents = {}
    Modes = {"trusted", "user", "all"}
    RootChoices = {TRUE, FALSE}
    MaxFetched = 2
    MaxReports = 2
    StatOnlyEmpty = TRUE
    RealWins = TRUE
    LandmarkHiding = "root"
    MemoComplete = TRUE
    PrefixedWhiteoutLookup = TRUE
    OpaqueByMode = TRUE
    WhiteoutAttr = TRUE
    MemWhiteoutAttr = TRUE
    WriterDropsToc = TRUE
    HardLinkSharesInode = TRUE
INIT Init
NEXT Next
VIEW core
INVARIANTS ListingIsTranslation ListedIffLookup InodesUniqueStable OpaqueXattr StateFileJSON StateDirHidden MemoIsListing MemIsServed
PROPERTIES ListingIsTranslationA ListedIffLookupA InodesUniqueStableA OpaqueXattrA StateFileJSONA StateDirHiddenA
CHECK_DEADLOCK FALSE

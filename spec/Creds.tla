------------------------------- MODULE Creds -------------------------------
(***************************************************************************)
(* Property C18, first half: credentials captured from CRI PullImage       *)
(* requests (service/keychain/cri/cri.go, service/resolver/cri.go          *)
(* ParseAuth, service/resolver/registry.go multiCredsFuncs).               *)
(*                                                                         *)
(* One action per critical section of instrumentedService (in.configMu):   *)
(*   Connect          the goroutine of NewCRIKeychain obtained the backend *)
(*                    client (before that every request fails and nothing  *)
(*                    is captured)                                         *)
(*   Pull(img,f,bok)  PullImage: config[ref] := auth BEFORE the backend is *)
(*                    asked, so the auth is captured even if the backend   *)
(*                    pull fails (bok = FALSE)                             *)
(*   Remove(img,bok)  RemoveImage: delete(config, ref) BEFORE the backend  *)
(*                    is asked (dropped even if the removal fails)         *)
(*   Query(h,ref,ch)  the resolver.Credential function(s): lookup by the   *)
(*                    exact normalized reference under configMu, then      *)
(*                    ParseAuth(cfg, canonical host); composition of       *)
(*                    several credential functions by multiCredsFuncs      *)
(*                                                                         *)
(* Image strings are normalized by distribution.ParseDockerRef (Norm).     *)
(* Secrets are named after the pull request that carried them (pull id n:  *)
(* "u<n>"/"p<n>"/"t<n>"), so a formula can say whose secret came back.     *)
(*                                                                         *)
(* Deliberate deviations: only parseable image references and parseable    *)
(* server addresses; the docker authorizer that consumes the credential    *)
(* function is not modelled here (see Fetcher.tla for Authorization).      *)
(***************************************************************************)
EXTENDS Integers, Sequences, FiniteSets, TLC

CONSTANTS
    Images,          \* image strings used in Pull/Remove requests
    Hosts,           \* hosts a credential is asked for
    Forms,           \* names of auth forms (see FormDef)
    Chains,          \* compositions of credential functions that are queried (see ChainDef)
    MaxPulls,        \* bound on pull requests (generation / exhaustive configs)
    ExactRefKey,     \* TRUE = config keyed by the full normalized reference (as in the code); FALSE = by repository
    ServerCheck,     \* TRUE = ParseAuth withholds when ServerAddress names another host (as in the code)
    DeleteOnRemove,  \* TRUE = RemoveImage deletes the entry (as in the code)
    FirstWins        \* TRUE = multiCredsFuncs returns the first non-empty answer (as in the code); FALSE = the last

VARIABLES
    connected,   \* BOOLEAN: in.cri # nil
    pulls,       \* Seq of [ref, form]: every PullImage request so far; index = pull id (names its secrets)
    config,      \* [Keys -> 0 | pull id]: in.config
    removed,     \* history: [Refs -> BOOLEAN] the image was removed at the backend after its latest pull request
    last         \* observation: the request just made and its answer

core == <<connected, pulls, config>>
vcore == <<connected, pulls, config, removed>>   \* VIEW of the exhaustive configs (removed matters to GoneAfterRemove)
vars == <<connected, pulls, config, removed, last>>

----------------------------------------------------------------------------
(* tables: what the libraries compute                                       *)

\* distribution.ParseDockerRef + reference.Parse(...).String()
Norm(img) ==
    CASE img = "alpine"                    -> "docker.io/library/alpine:latest"
      [] img = "docker.io/library/alpine"  -> "docker.io/library/alpine:latest"
      [] OTHER                             -> img
Refs == {Norm(i) : i \in Images}

Repo(ref) ==
    CASE ref \in {"reg.example.com/app:1", "reg.example.com/app:2"} -> "reg.example.com/app"
      [] OTHER -> ref
Key(ref) == IF ExactRefKey THEN ref ELSE Repo(ref)
Keys == {Key(r) : r \in Refs}

\* auth forms of runtime.AuthConfig; "nil" = no AuthConfig in the request
FormDef(f) ==
    CASE f = "up"        -> [kind |-> "userpass", server |-> ""]
      [] f = "up@reg"    -> [kind |-> "userpass", server |-> "https://reg.example.com"]
      [] f = "up@dio"    -> [kind |-> "userpass", server |-> "https://index.docker.io/v1/"]
      [] f = "up@bare"   -> [kind |-> "userpass", server |-> "reg.example.com"]
      [] f = "up@dhub"   -> [kind |-> "userpass", server |-> "https://docker.io"]
      [] f = "tok"       -> [kind |-> "token",    server |-> ""]
      [] f = "tok@dio"   -> [kind |-> "token",    server |-> "https://index.docker.io/v1/"]
      [] f = "b64"       -> [kind |-> "b64",      server |-> ""]
      [] f = "b64@reg"   -> [kind |-> "b64",      server |-> "https://reg.example.com"]
      [] f = "bad64"     -> [kind |-> "bad64",    server |-> ""]
      [] f = "empty@reg" -> [kind |-> "empty",    server |-> "https://reg.example.com"]
      [] f = "nil"       -> [kind |-> "nil",      server |-> ""]

\* url.Parse(ServerAddress).Host
SrvHost(s) ==
    CASE s = "https://reg.example.com"     -> "reg.example.com"
      [] s = "https://index.docker.io/v1/" -> "index.docker.io"
      [] s = "https://docker.io"           -> "docker.io"
      [] OTHER                             -> ""      \* no scheme: the whole string is a path

\* credentials(): creds of docker.io are stored keyed by https://index.docker.io/v1/
Canon(h) == IF h \in {"docker.io", "registry-1.docker.io"} THEN "index.docker.io" ELSE h

Num(n) == ToString(n)
None == [user |-> "", secret |-> "", err |-> FALSE]
Fail == [user |-> "", secret |-> "", err |-> TRUE]
IsEmpty(a) == a.user = "" /\ a.secret = ""

\* what a pull request of form kind k with id n must yield when it is offered
Secret(n, k) ==
    CASE k \in {"userpass", "b64"} -> [user |-> "u" \o Num(n), secret |-> "p" \o Num(n), err |-> FALSE]
      [] k = "token"               -> [user |-> "",            secret |-> "t" \o Num(n), err |-> FALSE]
      [] k = "bad64"               -> Fail
      [] OTHER                     -> None

\* resolver.ParseAuth(cfg, host)
ParseAuth(n, host) ==
    LET d == FormDef(pulls[n].form) IN
    IF d.kind = "nil" THEN None
    ELSE IF ServerCheck /\ d.server # "" /\ SrvHost(d.server) # host THEN None
    ELSE Secret(n, d.kind)

\* instrumentedService.credentials(host, refspec)
CriAnswer(host, ref) ==
    IF config[Key(ref)] = 0 THEN None ELSE ParseAuth(config[Key(ref)], Canon(host))

\* a second, static keychain (stands for the docker-config / kubeconfig keychains)
StaticAnswer(host) ==
    IF host = "reg.example.com" THEN [user |-> "su", secret |-> "sp", err |-> FALSE] ELSE None

ChainDef(c) ==
    CASE c = "cri"        -> <<"cri">>
      [] c = "cri+static" -> <<"cri", "static">>
      [] c = "static+cri" -> <<"static", "cri">>

Part(name, host, ref) == IF name = "cri" THEN CriAnswer(host, ref) ELSE StaticAnswer(host)
PartsOf(c, host, ref) == [i \in 1..Len(ChainDef(c)) |-> Part(ChainDef(c)[i], host, ref)]

\* multiCredsFuncs: the first function that fails or answers non-empty decides
RECURSIVE FirstOf(_, _)
FirstOf(parts, i) ==
    IF i > Len(parts) THEN None
    ELSE IF parts[i].err THEN Fail
    ELSE IF ~IsEmpty(parts[i]) THEN parts[i]
    ELSE FirstOf(parts, i + 1)
RECURSIVE LastOf(_, _)
LastOf(parts, i) ==
    IF i < 1 THEN None
    ELSE IF parts[i].err THEN Fail
    ELSE IF ~IsEmpty(parts[i]) THEN parts[i]
    ELSE LastOf(parts, i - 1)
Compose(parts) == IF FirstWins THEN FirstOf(parts, 1) ELSE LastOf(parts, Len(parts))

----------------------------------------------------------------------------
Init ==
    /\ connected = FALSE
    /\ pulls = <<>>
    /\ config = [k \in Keys |-> 0]
    /\ removed = [r \in Refs |-> FALSE]
    /\ last = [act |-> "Init"]

Connect ==
    /\ ~connected
    /\ connected' = TRUE
    /\ UNCHANGED <<pulls, config, removed>>
    /\ last' = [act |-> "Connect"]

Pull(img, f, bok) ==
    /\ Len(pulls) < MaxPulls
    /\ LET ref == Norm(img)
           n   == Len(pulls) + 1
       IN
        /\ pulls' = Append(pulls, [ref |-> ref, form |-> f])
        /\ config' = IF connected THEN [config EXCEPT ![Key(ref)] = n] ELSE config
        /\ removed' = [removed EXCEPT ![ref] = FALSE]
        /\ last' = [act |-> "Pull", img |-> img, form |-> f, n |-> n, bok |-> bok,
                    err |-> ~connected \/ ~bok]
    /\ UNCHANGED connected

Remove(img, bok) ==
    /\ LET ref == Norm(img) IN
        /\ config' = IF connected /\ DeleteOnRemove THEN [config EXCEPT ![Key(ref)] = 0] ELSE config
        /\ removed' = IF connected /\ bok THEN [removed EXCEPT ![ref] = TRUE] ELSE removed
        /\ last' = [act |-> "Remove", img |-> img, bok |-> bok, err |-> ~connected \/ ~bok]
    /\ UNCHANGED <<connected, pulls>>

Query(host, ref, c) ==
    /\ LET parts == PartsOf(c, host, ref)
           ans   == Compose(parts)
       IN last' = [act |-> "Query", host |-> host, ref |-> ref, chain |-> c, parts |-> parts,
                   user |-> ans.user, secret |-> ans.secret, err |-> ans.err]
    /\ UNCHANGED <<connected, pulls, config, removed>>

Next ==
    \/ Connect
    \/ \E i \in Images, f \in Forms, b \in BOOLEAN : Pull(i, f, b)
    \/ \E i \in Images, b \in BOOLEAN : Remove(i, b)
    \/ \E h \in Hosts, r \in Refs, c \in Chains : Query(h, r, c)

Spec == Init /\ [][Next]_vars

----------------------------------------------------------------------------
(* Property C18 (credentials), over observables only: the request history   *)
(* (pulls, removed) and the answer in last. PullIds / Latest are history    *)
(* bookkeeping; none of the formulas looks at config.                       *)

PullIds == 1..Len(pulls)
PullsOf(ref) == {n \in PullIds : pulls[n].ref = ref}
Latest(ref) == IF PullsOf(ref) = {} THEN 0 ELSE CHOOSE n \in PullsOf(ref) : \A m \in PullsOf(ref) : m <= n

\* the secrets a pull request carried (what may come back for it), whatever ParseAuth decides
Carried(n) == Secret(n, FormDef(pulls[n].form).kind)
\* pulls whose secret the answer a discloses
Owners(a) == {n \in PullIds : ~IsEmpty(a) /\ ~IsEmpty(Carried(n)) /\ a.secret = Carried(n).secret}

\* the property's own notion of "same host" (docker.io is known under three names)
Family(h) == IF h \in {"docker.io", "registry-1.docker.io", "index.docker.io"} THEN "docker.io" ELSE h
Named(n) == FormDef(pulls[n].form).server
AddressAllows(n, host) == Named(n) = "" \/ Family(SrvHost(Named(n))) = Family(host)

IsCriQuery(l) == l.act = "Query" /\ l.chain = "cri"
Answer(l) == [user |-> l.user, secret |-> l.secret, err |-> l.err]

\* what the CRI keychain offers is exactly the credential of the most recent pull request for that very reference
OnlyLatestPullOfExactRefP(l) ==
    (IsCriQuery(l) /\ ~IsEmpty(Answer(l))) =>
        /\ Latest(l.ref) # 0
        /\ Answer(l) = Carried(Latest(l.ref))
\* ... never a secret of a request that named another server address
ServerAddressMustMatchP(l) ==
    IsCriQuery(l) => \A n \in Owners(Answer(l)) : AddressAllows(n, l.host)
\* ... and nothing once the image was removed
GoneAfterRemoveP(l) ==
    (IsCriQuery(l) /\ removed[l.ref]) => IsEmpty(Answer(l))
\* a chain of credential functions answers what its first non-empty (or failing) member answers
FirstNonEmptyWinsP(l) ==
    l.act = "Query" => Answer(l) = FirstOf(l.parts, 1)

OnlyLatestPullOfExactRef == [][OnlyLatestPullOfExactRefP(last')]_vars
ServerAddressMustMatch   == [][ServerAddressMustMatchP(last')]_vars
GoneAfterRemove          == [][GoneAfterRemoveP(last')]_vars
FirstNonEmptyWins        == [][FirstNonEmptyWinsP(last')]_vars

(* internal consistency (documents the design, not part of the property)   *)
ConfigIsLatest ==
    \A r \in Refs : config[Key(r)] # 0 => config[Key(r)] \in PullIds
NothingBeforeConnect == ~connected => \A k \in Keys : config[k] = 0
=============================================================================

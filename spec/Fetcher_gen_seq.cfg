\* 1 worker x 2 operations, <= 3 personality changes, every initial personality (401 challenge, HEAD refused)
CONSTANTS
    Procs = {"p1"}
    MaxOps = 2
    MaxEnv = 3
    Modes = {"direct", "redir"}
    AuthModes = {TRUE, FALSE}
    HeadModes = {TRUE, FALSE}
    HeaderReadUnderLock = FALSE
    RedirectDropsHeaders = TRUE
    StaleAuth = FALSE
INIT GenInit
NEXT GenNext
VIEW core
CHECK_DEADLOCK FALSE

CONSTANTS
    TarIn = 0
    LastWins = TRUE
    ImplicitDirMode755 = TRUE
    LinksCountOnSource = TRUE
    SymlinkSizeFromTarget = TRUE
    SpecialBitsIndependent = TRUE
    MkdevSplit = TRUE
    MemoOnlyHidesAbsent = TRUE
    AttrOpsEverywhere = TRUE
SPECIFICATION MonSpec
INVARIANTS MetaEqualsTar InodesAsInTar
CHECK_DEADLOCK FALSE

-------------------------- MODULE NamedMutexTrace --------------------------
(* Trace validation (implementation -> specification) for NamedMutex.      *)
(* Input: trace.ndjson, recorded on a real util/namedmutex.NamedMutex      *)
(* either while replaying TLC-generated walks (goroutines parked at the    *)
(* gates) or from free-running goroutines under -race. Several traces are  *)
(* concatenated, separated by "Reset".                                     *)
(*   LockSec    g n o created + snapshot   hook under nl.mu in Lock        *)
(*   Acquire    g n c                      driver, after Lock returned (c = the caller's in-section counter of n) *)
(*   UnlockSec  g n o + snapshot           hook under nl.mu in Unlock (o = the mutex it looked up, 0 = nil) *)
(*   UnlockMu   g                          gate hook just BEFORE mu.Unlock() (so that the next Acquire is logged later) *)
(*   UnlockAbsent g n panic stuck + snapshot   replay only: Unlock of a name without entry; stuck = nl.mu.TryLock() failed afterwards *)
(*   Snap       snapshot                   driver under nl.mu, nobody inside a section *)
(*   Hang g / Panic g op                   no specification step: the monitor decides, this spec rejects *)
(* snapshot = ent (name -> object id, ids in order of first appearance), refs (name -> count, absent = 0), *)
(*            nmu = len(muMap), nref = len(refMap)                         *)
EXTENDS NamedMutex, Json, TLCExt

VARIABLE l
tvars == <<vars, l>>

TraceLog == ndJsonDeserialize("trace.ndjson")
Ev == TraceLog[l]
Has(f) == f \in DOMAIN Ev

IsEvent(e) == l <= Len(TraceLog) /\ Ev.ev = e /\ l' = l + 1

ObsOK ==
    Has("ent") =>
        /\ \A n \in Names : ent'[n] = Ev.ent[n] /\ refs'[n] = Ev.refs[n]
        /\ Cardinality({n \in Names : ent'[n] # NoObj}) = Ev.nmu
        /\ Cardinality({n \in Names : refs'[n] # 0}) = Ev.nref

TraceInit == Init /\ l = 1 /\ TLCSet(1, 0)

TraceReset ==
    /\ IsEvent("Reset")
    /\ ent' = [n \in Names |-> NoObj] /\ refs' = [n \in Names |-> 0] /\ objs' = <<>>
    /\ pc' = [g \in Gor |-> "idle"] /\ nm' = [g \in Gor |-> NoName] /\ mu' = [g \in Gor |-> NoObj]
    /\ done' = [g \in Gor |-> 0] /\ tmp' = [g \in Gor |-> NoTmp]
    /\ st' = [alloc |-> FALSE, stuck |-> FALSE]
    /\ last' = [act |-> "Init"]

TraceLockSec ==
    /\ IsEvent("LockSec") /\ Ev.g \in Gor /\ Ev.n \in Names
    /\ LockSec(Ev.g, Ev.n)
    /\ last'.o = Ev.o /\ last'.created = Ev.created
    /\ ObsOK
TraceAcquire ==
    /\ IsEvent("Acquire") /\ Ev.g \in Gor
    /\ nm[Ev.g] = Ev.n
    /\ Acquire(Ev.g)
TraceUnlockSec ==
    /\ IsEvent("UnlockSec") /\ Ev.g \in Gor
    /\ nm[Ev.g] = Ev.n
    /\ UnlockSec(Ev.g)
    /\ mu'[Ev.g] = Ev.o
    /\ ObsOK
TraceUnlockMu ==
    /\ IsEvent("UnlockMu") /\ Ev.g \in Gor
    /\ UnlockMu(Ev.g)
TraceUnlockAbsent ==
    /\ IsEvent("UnlockAbsent") /\ Ev.g \in Gor /\ Ev.n \in Names
    /\ UnlockAbsent(Ev.g, Ev.n)
    /\ last'.panic = Ev.panic /\ last'.stuck = Ev.stuck
    /\ ObsOK
TraceSnap ==
    /\ IsEvent("Snap")
    /\ UNCHANGED vars
    /\ ObsOK

TraceNext ==
    \/ TraceReset \/ TraceLockSec \/ TraceAcquire \/ TraceUnlockSec \/ TraceUnlockMu
    \/ TraceUnlockAbsent \/ TraceSnap

TraceSpec == TraceInit /\ [][TraceNext]_tvars

HighWater == IF l - 1 > TLCGet(1) THEN TLCSet(1, l - 1) ELSE TRUE
TraceAccepted ==
    IF TLCGet(1) = Len(TraceLog) THEN TRUE
    ELSE /\ PrintT("VREJECT " \o ToString(TLCGet(1)) \o " " \o ToString(Len(TraceLog)))
         /\ FALSE
=============================================================================

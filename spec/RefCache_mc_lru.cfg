\* exhaustive: LRU cache, capacity 1, 2 keys, 3 values, 4 handles
CONSTANTS
    Keys = {"k1", "k2"}
    Kind = "lru"
    Cap = 1
    MaxV = 3
    MaxH = 4
    OnceGuards = TRUE
    IdentityCheck = TRUE
    CallbackAtZero = TRUE
INIT Init
NEXT Next
VIEW core
INVARIANTS AtMostOnce NotWhileHeld NoLeak KeyOfLive RefsAccount LruOrderIsLive
PROPERTIES DoubleReleaseHarmless AddExistingReturnsCached CbMonotone
CHECK_DEADLOCK FALSE

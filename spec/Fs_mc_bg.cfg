\* background part: one mountpoint, neighbour pre-resolution, prefetch + background fetch, TTL expiry
CONSTANTS
    MPs = {"m1"}
    Blobs = {"b1", "b2"}
    Labs = {"ok"}
    Ops = {"Mount", "Check", "Unmount"}
    MaxCalls = 2
    MaxConc = 2
    MaxObj = 2
    SameMp = FALSE
    OneMount = FALSE
    AllowNoVerif = TRUE
    DisableVerif = FALSE
    NoPrefetch = FALSE
    NoBgFetch = FALSE
    PreRes = TRUE
    Expiry = TRUE
    ReleaseOnFail = TRUE
    EraseOnFail = TRUE
    VerifyFirst = TRUE
    SkipNeedsAllow = TRUE
    UnmountCloses = TRUE
    CheckOwnKey = TRUE
    DoneAlways = TRUE
    BgRespectsPrio = TRUE
SPECIFICATION Spec
VIEW core
INVARIANTS TypeOK MountedIffInMap MountedLayerAlive NoUnverifiedMountUnlessAllowed NoUnverifiedInMap DoDoneBalanced BackgroundFetchOnlyAfterMountReturns
PROPERTIES FailedMountLeavesNothing UnmountReleasesLayer CheckReachesOwnLayer BackgroundFetchStartsIdle
CHECK_DEADLOCK FALSE

\* exhaustive: two callers, every interleaving at gate granularity
CONSTANTS
    AKinds = {"Prepare", "View"}
    AParents = {"", "c1"}
    ATargets = {"", "c2"}
    BOps = {"Cleanup", "Close"}
    MountFaults = TRUE
    CleanupScanExcludesWriters = TRUE
INIT Init
NEXT Next
INVARIANTS MetaHasDirs PrepareTargetOutcome ValidCreateSucceeds AfterCleanupDirsAreLive UnmountOnlyAfterRemovedOrClosing ScanExcludesCreate TypeOK
CHECK_DEADLOCK FALSE

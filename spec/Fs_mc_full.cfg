\* thorough tier: two mountpoints, two blobs, all label kinds (22.5M states, ~11 min on 4 workers)
CONSTANTS
    MPs = {"m1", "m2"}
    Blobs = {"b1", "b2"}
    Labs = {"ok", "bad", "skip", "none", "malformed", "mirror"}
    Ops = {"Mount", "Check", "Unmount"}
    MaxCalls = 3
    MaxConc = 2
    MaxObj = 3
    SameMp = FALSE
    OneMount = FALSE
    AllowNoVerif = TRUE
    DisableVerif = FALSE
    NoPrefetch = FALSE
    NoBgFetch = TRUE
    PreRes = FALSE
    Expiry = FALSE
    ReleaseOnFail = TRUE
    EraseOnFail = TRUE
    VerifyFirst = TRUE
    SkipNeedsAllow = TRUE
    UnmountCloses = TRUE
    CheckOwnKey = TRUE
    DoneAlways = TRUE
    BgRespectsPrio = TRUE
SPECIFICATION Spec
VIEW core
INVARIANTS TypeOK MountedIffInMap MountedLayerAlive NoUnverifiedMountUnlessAllowed NoUnverifiedInMap DoDoneBalanced BackgroundFetchOnlyAfterMountReturns
PROPERTIES FailedMountLeavesNothing UnmountReleasesLayer CheckReachesOwnLayer BackgroundFetchStartsIdle
CHECK_DEADLOCK FALSE

\* exhaustive: directory without an entry of its own (e/f), missing paths, the root, an empty file
CONSTANTS
    UseEntries = {1, 2, 3, 4, 5, 11}
    PrioAlphabet = {"e/f", "a/x", "./a/c", "/", "e", "d"}
    MaxTar = 3
    MaxPrio = 2
    WithLayout = FALSE
    LayoutOpts <- OptsNone
    ImplicitParents = TRUE
    ParentsFirst = TRUE
    TargetFirst = TRUE
    PickedGuard = TRUE
    SkipPickedInRest = TRUE
    LandmarkAfterMoves = TRUE
    LandmarkByList = TRUE
    ReportMissing = TRUE
    DropInputLandmarks = TRUE
    LastDupWins = TRUE
    LandmarkOwnStream = TRUE
INIT Init
NEXT Next
INVARIANTS ExactlyOneLandmark EachAtMostOnce NothingLostOrDuplicated PrioritizedFirstInOrder ParentsAndTargetsBefore RestKeepsRelativeOrder MissingAbortsOrIsReported ImportIsEff
CHECK_DEADLOCK FALSE

CONSTANTS
    Invs = {1, 2, 3, 4, 5, 6}
    Concurrency = 1
    PeriodUs = 3000
    MaxDo = 1000000
    WaitBodyOnCancel = TRUE
    RecheckUnderLock = TRUE
    DecrAfterSilence = TRUE
    UseSem = TRUE
    NotifyArm = TRUE
    AwaitBodyOnTimeout = TRUE
    Timeouts = TRUE
    AcquireIgnoresTimeout = TRUE
    BroadcastAll = TRUE
SPECIFICATION MonSpec
INVARIANTS Bounded NoSelfOverlap NoneRunningAtReturn MonStartOnlyWhenQuiet MonAllReturned MonCancelReaches MonCallersBalanced MonNoLateStart
CHECK_DEADLOCK FALSE

SPECIFICATION MonSpec
INVARIANTS MonMergeEqualsApply MonServedIsTranslation MonListedIsLookedUp MonLayerInodesUnique
CHECK_DEADLOCK FALSE

------------------------------ MODULE CredsGen ------------------------------
(* Generation config: TLC prints every transition of the (small) state     *)
(* graph of Creds as JSON; tools/vlib.py turns the edge list into walks    *)
(* covering every edge, replayed against cri.NewCRIKeychain by the driver. *)
EXTENDS Creds, Json

CoreRec  == [connected |-> connected,  pulls |-> pulls,  config |-> config]
CoreRecP == [connected |-> connected', pulls |-> pulls', config |-> config']

GenInit == Init /\ PrintT("VINIT " \o ToJson(CoreRec))
GenNext == Next /\ PrintT("VEDGE " \o ToJson([from |-> CoreRec, last |-> last', to |-> CoreRecP]))
=============================================================================

---------------------------- MODULE SortMonitor ----------------------------
(* Monitor (DESIGN 2.5): no enabling conditions. Every recorded Build is   *)
(* loaded into the variables - the input (tar, prio, allow) and what the   *)
(* IMPLEMENTATION produced (error class, missed list, entry order of the   *)
(* decompressed tar, observed byte layout) - and only the C14 formulas of  *)
(* Sort.tla are evaluated. The transcribed algorithm is not consulted.     *)
EXTENDS Sort, Json, TLCExt

VARIABLE l
mvars == <<vars, l>>

TraceLog == ndJsonDeserialize("trace.ndjson")
Ev == TraceLog[l]

MonInit == Init /\ l = 1

MonNext ==
    /\ l <= Len(TraceLog) /\ l' = l + 1
    /\ tar' = Ev.tar /\ prio' = Ev.prio /\ allow' = Ev.allow /\ eff' = EffOf(Ev.tar)
    /\ opt' = Ev.opt
    /\ res' = [err |-> Ev.err # "", why |-> Ev.err, out |-> Ev.order, missed |-> Ev.missed]
    /\ lay' = Ev.lay
    /\ phase' = IF Ev.err # "" THEN "sorted" ELSE "laid"

MonSpec == MonInit /\ [][MonNext]_mvars

\* events: err = "" | "notfound" | "loop" (D6: any abort is an abort for MissingAbortsOrIsReported)
=============================================================================

------------------------------ MODULE FsTrace ------------------------------
(* Trace validation (implementation -> specification) of the step-by-step executions of harness/fs/verif_fs_test.go:     *)
(* one event per spec step, with the arguments the IMPLEMENTATION showed (did getSources fail, did the resolve hit the   *)
(* layer cache, did the verification pass, which handle was registered under which key, did the kernel mount appear,      *)
(* error class, Do/Done counts) and the projection `obs' of the implementation state after the step: layer map, kernel   *)
(* mount table (/proc/self/mountinfo), handle -> layer object, per object: cached in the resolver's layer cache, client   *)
(* references of the cache entry, closed flag, verification state, prefetch waiter released.                              *)
EXTENDS Fs, Json, TLCExt

VARIABLE l
tvars == <<vars, l>>
TraceLog == ndJsonDeserialize("trace.ndjson")
Ev == TraceLog[l]
Has(f) == f \in DOMAIN Ev
IsEvent(e) == l <= Len(TraceLog) /\ Ev.ev = e /\ l' = l + 1

RefsIn(H, o) == Cardinality({h \in 1..Len(H) : H[h].o = o /\ H[h].st = "held"})
\* the implementation runs a failing Mount step and the deferred unregister + l.Done() in one go (no hook in between):
\* while the specification still has that Release step ahead, projections are not compared
PendingRelease == \E c \in 1..Len(calls') : calls'[c].pc = "fail" /\ calls'[c].h # 0
ObsOK ==
    (Has("obs") /\ ~PendingRelease) =>
      LET ob == Ev.obs IN
        /\ \A mp \in MPs : lmap'[mp] = ob.lmap[mp] /\ fuse'[mp] = ob.fuse[mp]
        /\ Len(hs') = Len(ob.hs) /\ \A h \in 1..Len(hs') : hs'[h].o = ob.hs[h]
        /\ Len(objs') = Len(ob.objs)
        /\ \A o \in 1..Len(objs') :
              /\ objs'[o].b = ob.objs[o].b
              /\ objs'[o].cached = ob.objs[o].cached
              /\ ob.objs[o].cached => RefsIn(hs', o) = ob.objs[o].refs
              /\ (~objs'[o].cached /\ RefsIn(hs', o) = 0) = ob.objs[o].closed
              /\ objs'[o].verif = ob.objs[o].verif
              /\ objs'[o].wdone = ob.objs[o].wdone

TraceInit == Init /\ l = 1 /\ TLCSet(1, 0)
TraceReset ==
    /\ IsEvent("Reset")
    /\ lmap' = [mp \in MPs |-> 0] /\ hs' = <<>> /\ objs' = <<>> /\ fuse' = [mp \in MPs |-> 0]
    /\ pri' = 0 /\ calls' = <<>> /\ last' = [act |-> "Init"]
TraceCall == IsEvent("Call") /\ Call(Ev.op, Ev.mp, Ev.b, Ev.lab) /\ last'.c = Ev.c
TraceDo == IsEvent("Do") /\ Do(Ev.c) /\ ObsOK
TraceSources == IsEvent("Sources") /\ MSources(Ev.c) /\ last'.ok = Ev.ok /\ ObsOK
TraceResolve ==
    /\ IsEvent("Resolve") /\ MResolve(Ev.c, Ev.ok) /\ last'.hit = Ev.hit /\ last'.src = Ev.src
    /\ Ev.ok => calls'[Ev.c].h = Ev.h
    /\ ObsOK
TraceVerify == IsEvent("Verify") /\ MVerify(Ev.c) /\ (last'.d # "refuse") = Ev.pass /\ ObsOK
TraceInsert == IsEvent("Insert") /\ MInsert(Ev.c) /\ Ev.key = calls[Ev.c].mp /\ Ev.h = calls[Ev.c].h /\ ObsOK
TraceFuse == IsEvent("Fuse") /\ MFuse(Ev.c, Ev.ok) /\ ObsOK
TraceRelease == IsEvent("Release") /\ MFail(Ev.c) /\ ObsOK
TraceReturn ==
    /\ IsEvent("Return") /\ Ret(Ev.c) /\ last'.err = Ev.err
    /\ calls'[Ev.c].dos = Ev.dos /\ calls'[Ev.c].dones = Ev.dones
    /\ ObsOK
TraceLookup == IsEvent("Lookup") /\ CLookup(Ev.c) /\ last'.h = Ev.h /\ last'.key = Ev.key /\ ObsOK
TraceLayerCheck == IsEvent("LayerCheck") /\ CLayerCheck(Ev.c, Ev.res) /\ ObsOK
TraceRefresh == IsEvent("Refresh") /\ CRefresh(Ev.c, Ev.ok) /\ ObsOK
TraceWait == IsEvent("Wait") /\ CWait(Ev.c, Ev.how) /\ ObsOK
TraceDelete == IsEvent("Delete") /\ UDelete(Ev.c) /\ last'.h = Ev.h /\ ObsOK
TraceSys == IsEvent("Sys") /\ USys(Ev.c) /\ last'.ok = Ev.ok /\ ObsOK
TracePfStart == IsEvent("PfStart") /\ PfStart(Ev.o) /\ last'.closed = Ev.closed /\ ObsOK
TracePfEnd == IsEvent("PfEnd") /\ PfEnd(Ev.o) /\ ObsOK

TraceNext ==
    \/ TraceReset \/ TraceCall \/ TraceDo \/ TraceSources \/ TraceResolve \/ TraceVerify \/ TraceInsert \/ TraceFuse
    \/ TraceRelease \/ TraceReturn \/ TraceLookup \/ TraceLayerCheck \/ TraceRefresh \/ TraceWait \/ TraceDelete \/ TraceSys
    \/ TracePfStart \/ TracePfEnd
TraceSpec == TraceInit /\ [][TraceNext]_tvars

HighWater == IF l - 1 > TLCGet(1) THEN TLCSet(1, l - 1) ELSE TRUE
TraceAccepted ==
    IF TLCGet(1) = Len(TraceLog) THEN TRUE
    ELSE /\ PrintT("VREJECT " \o ToString(TLCGet(1)) \o " " \o ToString(Len(TraceLog)))
         /\ FALSE
=============================================================================

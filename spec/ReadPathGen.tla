---------------------------- MODULE ReadPathGen ----------------------------
(* Generation config for ReadPath: every transition printed as JSON.       *)
(* The state is identified by the cache content (the layout is constant).  *)
EXTENDS ReadPath, Json
SetToSeq(S) == LET RECURSIVE F(_) F(T) == IF T = {} THEN <<>> ELSE LET x == CHOOSE x \in T : TRUE IN <<x>> \o F(T \ {x}) IN F(S)
CoreRec  == [cache |-> cache]
CoreRecP == [cache |-> cache']
GenInit == Init /\ PrintT("VINIT " \o ToJson(CoreRec))
GenNext == Next /\ PrintT("VEDGE " \o ToJson([from |-> CoreRec, last |-> last', to |-> CoreRecP]))
=============================================================================

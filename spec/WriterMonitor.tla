--------------------------- MODULE WriterMonitor ---------------------------
(* Monitor for C03: loads what the independent reader observed about each  *)
(* real blob and evaluates the C03 formulas of Writer.tla on it; the       *)
(* transcription (WriterRun) is not consulted. `expected` is the           *)
(* declarative Expected(mode, input).                                      *)
EXTENDS Writer, Json, TLCExt

VARIABLE l
mvars == <<vars, l>>
TraceLog == ndJsonDeserialize("trace.ndjson")
Ev == TraceLog[l]

MonInit == Init /\ l = 1
MonNext ==
    /\ l <= Len(TraceLog) /\ l' = l + 1
    /\ input' = Ev.input /\ opt' = Ev.opt /\ phase' = "done"
    /\ lay' = [refused |-> Ev.err = "refused", order |-> Ev.order, members |-> Ev.members, toc |-> Ev.toc, expected |-> Expected(Ev.opt.mode, Ev.input),
               diffid |-> Ev.diffid, shaAll |-> Ev.shaAll, tocdigest |-> Ev.tocdigest, shaToc |-> Ev.shaToc,
               shaPayload |-> Ev.shaPayload, shaInput |-> Ev.shaInput]
MonSpec == MonInit /\ [][MonNext]_mvars
=============================================================================

SPECIFICATION MonSpec
CONSTRAINT Report
INVARIANTS NoCrashNoHang
CHECK_DEADLOCK FALSE

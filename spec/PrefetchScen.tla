---------------------------- MODULE PrefetchScen ----------------------------
(* Abstract scenarios (layer layout + configuration) for the exhaustive     *)
(* runs of Prefetch.tla. Offsets in bytes, registry chunk size 10.          *)
(* The generation/replay stage of ./check C15 replaces this module (in its  *)
(* scratch directory) by one generated from the layouts of the REAL layers. *)
EXTENDS Integers, Sequences

\* prefetch landmark at 40: files 1,2 prioritized, 3 = landmark file, 4,5 not prioritized (5 shares a stream with 4)
LmBase == [id |-> "lm", nf |-> 5, off |-> <<5, 20, 40, 45, 70>>,
           span |-> <<<<0, 1>>, <<2, 3>>, <<4>>, <<4, 5, 6>>, <<6, 7>>>>,
           pre |-> <<<<>>, <<>>, <<>>, <<>>, <<4>>>>, prf |-> <<<<>>, <<>>, <<>>, <<>>, <<>>>>, prio |-> <<1, 2>>,
           lm |-> "prefetch", loff |-> 40, size |-> 100, cs |-> 10, cfg |-> 30, thr |-> 0, f0 |-> <<8, 9>>, rd |-> <<1, 2, 3, 4, 5>>, ro |-> 2, pt |-> <<4>>,
           np |-> 2, nw |-> 2, nb |-> 2]
\* no-prefetch landmark (file 1)
NoLm == [id |-> "nolm", nf |-> 3, off |-> <<5, 10, 35>>,
         span |-> <<<<0>>, <<1, 2>>, <<3, 4>>>>, pre |-> <<<<>>, <<>>, <<>>>>, prf |-> <<<<>>, <<>>, <<>>>>, prio |-> <<>>,
         lm |-> "noprefetch", loff |-> 5, size |-> 70, cs |-> 10, cfg |-> 50, thr |-> 0, f0 |-> <<5, 6>>, rd |-> <<1, 2, 3>>, ro |-> 2, pt |-> <<>>,
         np |-> 2, nw |-> 2, nb |-> 2]
\* no landmark at all (legacy stargz): configured size decides
NoneBase == [id |-> "none", nf |-> 3, off |-> <<5, 20, 40>>,
             span |-> <<<<0, 1>>, <<2, 3>>, <<4, 5>>>>, pre |-> <<<<>>, <<>>, <<2>>>>, prf |-> <<<<>>, <<1>>, <<>>>>, prio |-> <<>>,
             lm |-> "none", loff |-> 0, size |-> 80, cs |-> 10, cfg |-> 20, thr |-> 0, f0 |-> <<6, 7>>, rd |-> <<1, 2, 3>>, ro |-> 2, pt |-> <<>>,
             np |-> 2, nw |-> 2, nb |-> 2]

With(r, id, cfg, thr) == [r EXCEPT !.id = id, !.cfg = cfg, !.thr = thr]

Scen ==
    { LmBase, With(LmBase, "lm-async", 30, 35), NoLm,
      With(LmBase, "lm-below", 100, 60),          \* configured size > threshold > landmark offset: no early release With(NoLm, "nolm-async", 50, 20),
      NoneBase,                                   \* cfg = offset of file 2 exactly ( < versus <= )
      With(NoneBase, "none-mid", 25, 0),          \* range ends inside file 2: its tail is fetched on demand
      With(NoneBase, "none-big", 500, 0),         \* cfg > blob size
      With(NoneBase, "none-big-async", 500, 90) } \* ... and the threshold lies between blob size and cfg

\* smaller process sets for the liveness run
Small(r) == [r EXCEPT !.np = 1, !.nw = 2, !.nb = 1, !.rd = <<2>>, !.pt = <<>>]
ScenSmall == {Small(s) : s \in Scen}
\* quick tier: one BackgroundFetch caller
Quick(r) == [r EXCEPT !.np = 1, !.nb = 1, !.rd = IF r.nf = 5 THEN <<2, 4>> ELSE <<2, 3>>]
ScenQuick == {Quick(s) : s \in Scen}
\* placeholder for the generated scenarios (replaced at run time)
GenScen == ScenSmall
=============================================================================

CONSTANTS
    Mode = "ext"
    NConv = 4
    SrcIds = {1}
    SpareCap = TRUE
    MaxIntr = 0
    MayDeviate = FALSE
    MapLock = TRUE
    CopyOpts = TRUE
    DiffIDCheck = TRUE
    UpdateLabel = TRUE
    MediaTypeFollowsBlob = TRUE
SPECIFICATION MonSpec
INVARIANTS DescDigestCommitted DescSize DescTocVerifies DescUncompressedSize StoreLabelIsDiffID MediaTypeMatches ZstdManifestInfo TocImageMapsEveryLayer NoConversionPanics LosslessKeepsDiffID MapWritesMutuallyExclusive
CHECK_DEADLOCK FALSE

------------------------------ MODULE NodeGen ------------------------------
(* Generation config for Node: TLC prints every transition of the state    *)
(* graph as JSON; tools/vlib.py turns the edges into walks covering every  *)
(* edge; the Go driver builds each directory content as a real eStargz     *)
(* layer and replays the walks on real nodes (both metadata stores).       *)
EXTENDS Node, Json

CoreRec  == [isRoot |-> isRoot, mode |-> mode, src |-> src, cached |-> cached, ents |-> ents, mem |-> mem,
             fetched |-> fetched, reported |-> reported, sfheld |-> sfheld]
CoreRecP == [isRoot |-> isRoot', mode |-> mode', src |-> src', cached |-> cached', ents |-> ents', mem |-> mem',
             fetched |-> fetched', reported |-> reported', sfheld |-> sfheld']

\* the opaque mode only matters to the xattr calls, which change nothing: directories with the opaque marker
\* are generated in every mode, the others in one mode each (all three modes occur)
ModeSeq == <<"trusted", "user", "all">>
GenScope == (Opq \in src) \/ (mode = ModeSeq[(Cardinality(src) % 3) + 1]) \/ (mode \notin SeqToSet(ModeSeq))

GenInit == Init /\ GenScope /\ PrintT("VINIT " \o ToJson(CoreRec))
GenNext == Next /\ PrintT("VEDGE " \o ToJson([from |-> CoreRec, last |-> last', to |-> CoreRecP]))
=============================================================================

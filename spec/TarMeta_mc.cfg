\* exhaustive: every call of the node layer in every state of the memoised listings, for the tar of TarMetaMC
CONSTANTS
    TarIn <- MCTar
    LastWins = TRUE
    ImplicitDirMode755 = TRUE
    LinksCountOnSource = TRUE
    SymlinkSizeFromTarget = TRUE
    SpecialBitsIndependent = TRUE
    MkdevSplit = TRUE
    MemoOnlyHidesAbsent = TRUE
    AttrOpsEverywhere = TRUE
INIT Init
NEXT Next
VIEW core
INVARIANTS TarOK
PROPERTIES MetaEqualsTarStep
CHECK_DEADLOCK FALSE

CONSTANTS
    NMp = 3
    Labs = {"la", "lb"}
    MaxInit = 1000000
    MaxEpoch = 1000000
    InitFails = {"none", "badcfg", "cfgfunc", "newfs"}
    ReadyGate = TRUE
    NilFsCheck = TRUE
    SkipServed = TRUE
    RecordOnlyMounted = TRUE
    KeepOnFailedUnmount = TRUE
    ForgetOnUnmount = TRUE
    UseCreator = TRUE
    AdoptNewFs = TRUE
    RestoreOnInit = TRUE
    UnknownUnmountOK_G = TRUE
    OverwriteRecord = TRUE
SPECIFICATION TraceSpec
CONSTRAINT HighWater
INVARIANTS RecordedLabelsServed RecordEqualsServing NoSecondMount MapMatchesLive NoPanic
POSTCONDITION TraceAccepted
CHECK_DEADLOCK FALSE

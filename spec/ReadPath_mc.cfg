\* exhaustive: files 1 (7 bytes, chunk size 3), 2 (2 bytes), 3 (empty) and the landmark 9;
\* default layout: min-chunk-size build, prioritized file 2 alone in stream 1, landmark + file 1 share stream 2
\* (tools/props/C02.py overrides Sizes/ChunkTab/PrefetchOn with the layouts the real builder produced)
CONSTANTS
    Sizes <- MCSizes
    ChunkTab <- MCChunkTab
    PrefetchOn <- MCPrefetch
    Lens = {1, 2, 3, 4, 7, 9}
    Offs = {0, 1, 2, 3, 4, 5, 6, 7, 8, 9, 10}
    EvictOffs = {0, 1, 2, 3, 4, 5, 6, 7, 8, 9, 10}
    LocateOK = TRUE
    DiscardOK = TRUE
    InnerSkipOK = TRUE
    PreReadKeyOK = TRUE
INIT Init
NEXT Next
VIEW core
INVARIANTS CacheHoldsOnlySourceBytes TypeOK LayoutOK
PROPERTIES ReadEqualsSourceStep
CHECK_DEADLOCK FALSE

\* exhaustive, fs.Mount level: label combinations x filesystem configurations, two Mounts reaching one cached layer; base: Verify / SkipVerify calls in any order reaching one cached layer object, reads and passthrough reads in between
CONSTANTS
    NC = 2
    NWk = 0
    NRd = 3
    MaxAlter = 2
    MaxVerify = 2
    Kinds = {"s", "k"}
    Tocs = {"D", "X"}
    Args = {"D", "W"}
    AtomicRead = TRUE
    AtomicVerify = TRUE
    WithSkip = TRUE
    WithPass = TRUE
    WithTry = FALSE
    DecideUnderLock = TRUE
    AbortWhenProhibited = TRUE
    VerifyBeforeCache = TRUE
    RecheckCachedLayer = TRUE
    PassVerifies = TRUE
    TocLabelFirst = TRUE
    WithMount = TRUE
    FsCfgs = {"--", "a-", "-d", "ad"}
INIT Init
NEXT Next
VIEW core
INVARIANTS MountImpliesToc ServedAreGood NoBadStaysCached FailedReadLeavesNothing TypeOK
CHECK_DEADLOCK FALSE

----------------------------- MODULE LayerTrace -----------------------------
(* Trace validation (implementation -> specification) for Layer.tla.        *)
(* Input: trace.ndjson; one event per spec action, recorded by the Go       *)
(* driver while it steps real Resolve goroutines from gate to gate          *)
(* (verifhook.Gate "layer.resolve.*") and calls Done/Close/Read/Refresh/    *)
(* Remove on a real layer.Resolver. Traces are separated by "Reset".        *)
(*                                                                          *)
(* Event fields: ev (action), h, n, arg (the injected environment choice),  *)
(* ok (what the implementation answered), ret ("" | "ok" | "err": Resolve   *)
(* returned), obs = projection of the implementation AFTER the step:        *)
(*   lc, bc   name -> id (0 = not cached)     fsd, hd  directory exists?    *)
(*   layers   [name, blob, closed, meta, fsd, files] by id                  *)
(*   blobs    [name, closed, hd, conn, fresh, files] by id                  *)
(*   hs       per holder [pc, n, l, b, fd, hdp]                             *)
EXTENDS Layer, Json, TLCExt

VARIABLE l
tvars == <<vars, l>>

TraceLog == ndJsonDeserialize("trace.ndjson")
Ev == TraceLog[l]
IsEvent(e) == l <= Len(TraceLog) /\ Ev.ev = e /\ l' = l + 1

ObsOK ==
    LET o == Ev.obs IN
    /\ \A n \in Names : lc'[n] = o.lc[n] /\ bc'[n] = o.bc[n]
    /\ Len(o.layers) = Len(layers') /\ Len(o.blobs) = Len(blobs')
    /\ \A i \in 1..Len(layers') :
          /\ layers'[i].name = o.layers[i].name /\ layers'[i].blob = o.layers[i].blob
          /\ layers'[i].closed = o.layers[i].closed /\ layers'[i].meta = o.layers[i].meta
          /\ layers'[i].fsd = o.layers[i].fsd
    /\ \A i \in 1..Len(blobs') :
          /\ blobs'[i].name = o.blobs[i].name /\ blobs'[i].closed = o.blobs[i].closed
          /\ blobs'[i].hd = o.blobs[i].hd
          /\ blobs'[i].closed \/ (blobs'[i].conn = o.blobs[i].conn /\ blobs'[i].fresh = o.blobs[i].fresh)
    /\ fsd' = o.fsd /\ hd' = o.hd
    /\ \A h \in H :
          /\ hs'[h].pc = o.hs[h].pc /\ hs'[h].n = o.hs[h].n /\ hs'[h].l = o.hs[h].l
          /\ hs'[h].b = o.hs[h].b /\ hs'[h].fd = o.hs[h].fd /\ hs'[h].hdp = o.hs[h].hdp
    /\ last'.ok = Ev.ok /\ last'.ret = Ev.ret

TraceInit == Init /\ l = 1 /\ TLCSet(1, 0)

TraceReset ==
    /\ IsEvent("Reset")
    /\ lock' = [n \in Names |-> 0] /\ lc' = [n \in Names |-> 0] /\ bc' = [n \in Names |-> 0]
    /\ layers' = <<>> /\ blobs' = <<>> /\ fsd' = <<>> /\ hd' = <<>>
    /\ hs' = [h \in H |-> Idle] /\ nres' = 0 /\ nfault' = 0 /\ nbreak' = 0
    /\ last' = [act |-> "Init", h |-> 0, n |-> NoName, arg |-> TRUE, ok |-> TRUE, ret |-> "", cb |-> 0]

Step(e, A) == IsEvent(e) /\ A /\ (e # "BreakConn" => nbreak' = nbreak) /\ ObsOK

TraceNext ==
    \/ TraceReset
    \/ Step("ResolveLock", ResolveLockA(Ev.h, Ev.n))
    \/ Step("LayerCacheGet", LayerCacheGet(Ev.h))
    \/ Step("LayerCheck", LayerCheck(Ev.h))
    \/ Step("LayerEvictStale", LayerEvictStale(Ev.h))
    \/ Step("LayerRemoveStale", LayerRemoveStale(Ev.h))
    \/ Step("BlobCacheGet", BlobCacheGet(Ev.h))
    \/ Step("BlobCheck", BlobCheck(Ev.h))
    \/ Step("BlobEvictStale", BlobEvictStale(Ev.h))
    \/ Step("BlobRemoveStale", BlobRemoveStale(Ev.h))
    \/ Step("NewHttpCache", NewHttpCache(Ev.h))
    \/ Step("RegistryResolve", RegistryResolve(Ev.h, Ev.arg))
    \/ Step("BlobCacheAdd", BlobCacheAdd(Ev.h))
    \/ Step("NewFsCache", NewFsCache(Ev.h))
    \/ Step("OpenMeta", OpenMeta(Ev.h, Ev.arg))
    \/ Step("LayerCacheAdd", LayerCacheAdd(Ev.h))
    \/ Step("Read", Read(Ev.h))
    \/ Step("Done", Done(Ev.h))
    \/ Step("Close", Close(Ev.h))
    \/ Step("DoneAgain", DoneAgain(Ev.h))
    \/ Step("CloseAgain", CloseAgain(Ev.h))
    \/ Step("Refresh", Refresh(Ev.h, Ev.arg))
    \/ Step("Check", Check(Ev.h))
    \/ Step("Tick", Tick)
    \/ Step("ArmCloseErr", ArmCloseErr(Ev.cb))
    \/ Step("BreakConn", BreakConn(Ev.n))
    \/ Step("TTLExpireLayer", TTLExpireLayer(Ev.n))
    \/ Step("TTLExpireBlob", TTLExpireBlob(Ev.n))

TraceSpec == TraceInit /\ [][TraceNext]_tvars

HighWater == IF l - 1 > TLCGet(1) THEN TLCSet(1, l - 1) ELSE TRUE
TraceAccepted ==
    IF TLCGet(1) = Len(TraceLog) THEN TRUE
    ELSE /\ PrintT("VREJECT " \o ToString(TLCGet(1)) \o " " \o ToString(Len(TraceLog)))
         /\ FALSE
=============================================================================

------------------------------ MODULE FuseMgr ------------------------------
(***************************************************************************)
(* FUSE manager (fusemanager/service.go, fusestore.go): property C17.      *)
(*                                                                         *)
(* One action per RPC. Init holds fm.lock exclusively, Mount/Check/Unmount *)
(* hold it shared; C17 quantifies over SEQUENCES of requests (histories,   *)
(* crash points, fault sequences - not schedules), so every RPC is one     *)
(* atomic step here. Every RPC makes at most ONE durable write (one bolt   *)
(* transaction, assumed atomic), therefore a manager crash inside an RPC   *)
(* is indistinguishable, after the restart, from a crash directly before   *)
(* or directly after it (live mounts die with the process, only the store  *)
(* file stays): ManagerRestart between RPCs, plus MountCrash/UnmountCrash  *)
(* for the point between the filesystem's effect and the durable write.    *)
(*                                                                         *)
(* State of fusemanager.Server                                             *)
(*   status   "wait" (FuseManagerWaitInit) | "ready" | "closed" (NotReady) *)
(*   cfg      tag of fm.config (0 = nil); the k-th Init request of a       *)
(*            history carries config tag k                                 *)
(*   cur      fm.curFs as index into insts (0 = nil)                       *)
(*   fsMap    mountpoint -> index of the filesystem instance (0 = absent)  *)
(*   store    bolt bucket "fuse-info-bucket": mountpoint -> [lab, cfg]     *)
(*            (lab = "none": no record)                                    *)
(* Environment                                                             *)
(*   insts    filesystem instances ever constructed: [cfg, epoch]          *)
(*   live     mountpoint -> sequence of instances that have it mounted     *)
(*            (mount tables of the instances of the running process)       *)
(*   liveLab  mountpoint -> label set of the filesystem-level mount that is  *)
(*            live on it ("none" if not mounted)                           *)
(*   epoch    manager process number, ninit number of Init requests so far *)
(* History (maintained identically by the trace monitor from observations) *)
(*   hist     inited     an Init request returned in this epoch            *)
(*            initErr    the last Init of this epoch returned an error     *)
(*            unrestored recorded mountpoints not served when that Init    *)
(*                       returned with an error ({} if it returned ok)     *)
(*            okCfg      config tag of the last Init iff it returned ok    *)
(*            anyFs      a filesystem was constructed in this epoch        *)
(*            reqLab     mountpoint -> label set of the last request that   *)
(*                       was told "ok, mounted" for it while it is served   *)
(*                       (Mount request, or the restoring mount of Init)    *)
(*   last     observation: request, arguments, result, filesystem calls    *)
(*                                                                         *)
(* Environment nondeterminism is an ARGUMENT of the action: which step of  *)
(* Init fails (fail), which restoring mounts fail (rf), whether the        *)
(* filesystem's Mount/Check/Unmount succeeds (fsok).                       *)
(*                                                                         *)
(* Deliberate deviations from the code (named):                            *)
(*  - no request after Close: runFuseManager stops the gRPC server before  *)
(*    Close and exits afterwards; Close is only followed by a restart.     *)
(*  - Unmount of a mountpoint unknown to fsMap consults the kernel mount   *)
(*    table; the model (and the driver's temp directories) has no foreign  *)
(*    mounts there, so that branch always takes "not mounted -> ok".       *)
(*  - errors of storeFuseInfo/removeFuseInfo (ignored by the code) do not  *)
(*    occur; bolt transactions are atomic.                                 *)
(*  - a filesystem's Check/Unmount of a mountpoint it has not mounted      *)
(*    fails (that is what the recording fake does; only reachable with a   *)
(*    negative control / mutant).                                          *)
(***************************************************************************)
EXTENDS Integers, Sequences, FiniteSets, TLC

CONSTANTS
    NMp,            \* number of mountpoints "m1".."m<NMp>"
    Labs,           \* label sets a Mount request can carry (strings, # "none")
    MaxInit,        \* bound on Init requests (= config generations) per history
    MaxEpoch,       \* bound on manager processes per history
    InitFails,      \* failure sites of Init that are injected: subset of {"none", "badcfg", "cfgfunc", "newfs"}
    \* property-bearing guards of the code; TRUE = as in the (fixed) code
    ReadyGate,          \* Mount/Check/Unmount refuse unless status = Ready
    NilFsCheck,         \* mount() returns an error when no filesystem exists (FALSE = pinned code: nil dereference)
    SkipServed,         \* mount() skips mountpoints found in fsMap
    RecordOnlyMounted,  \* Mount records only after the filesystem mounted
    KeepOnFailedUnmount,\* a failed Unmount leaves fsMap and the record alone
    ForgetOnUnmount,    \* a successful Unmount removes the record
    UseCreator,         \* Check/Unmount use the instance in fsMap (FALSE = curFs)
    AdoptNewFs,         \* Init makes the new filesystem curFs
    RestoreOnInit,      \* Init calls restoreFuseInfo
    UnknownUnmountOK_G, \* Unmount of an unknown, unmounted mountpoint returns ok
    OverwriteRecord     \* storeFuseInfo replaces an existing record of the mountpoint (bucket.Put)

VARIABLES status, cfg, cur, fsMap, store, insts, live, liveLab, epoch, ninit, hist, last

core == <<status, cfg, cur, fsMap, store, insts, live, liveLab, epoch, ninit, hist>>
vars == <<status, cfg, cur, fsMap, store, insts, live, liveLab, epoch, ninit, hist, last>>

\* mountpoints as a sequence in bolt key order (= the order in which restoreFuseInfo walks the bucket), and as a set
MpOrder == [i \in 1..NMp |-> "m" \o ToString(i)]
Mps == {MpOrder[i] : i \in 1..NMp}

NoRec == [lab |-> "none", cfg |-> 0]
Rec(l, c) == [lab |-> l, cfg |-> c]
RecordedIn(st, m) == st[m].lab # "none"
Recorded(m) == RecordedIn(store, m)
Range(s) == {s[i] : i \in 1..Len(s)}
Min(S) == CHOOSE x \in S : \A y \in S : x <= y
Call(i, op, m, l) == [inst |-> i, op |-> op, mp |-> m, lab |-> l]
\* remove the first occurrence of x
RemoveOne(s, x) ==
    LET idx == {i \in 1..Len(s) : s[i] = x} IN
    IF idx = {} THEN s
    ELSE LET k == Min(idx) IN [i \in 1..(Len(s) - 1) |-> IF i < k THEN s[i] ELSE s[i + 1]]
HasMounted(i, m) == i \in Range(live[m])

NoHist == [inited |-> FALSE, initErr |-> FALSE, unrestored |-> {}, okCfg |-> 0, anyFs |-> FALSE,
           reqLab |-> [m \in Mps |-> "none"]]
\* history after an Init request with config tag c returned res; built = a filesystem was constructed
HistAfterInit(h, c, res, built, st, lv) ==
    [inited |-> TRUE,
     initErr |-> res # "ok",
     unrestored |-> IF res = "ok" THEN {} ELSE {m \in Mps : RecordedIn(st, m) /\ lv[m] = <<>>},
     okCfg |-> IF res = "ok" THEN c ELSE 0,
     anyFs |-> h.anyFs \/ built,
     reqLab |-> h.reqLab]
\* reqLab after the request observed as l (pre-state mount tables lv0, post-state lv1)
ReqLabNext(rl, l, lv0, lv1) ==
    [m \in Mps |->
        IF lv1[m] = <<>> THEN "none"
        ELSE IF l.act = "Mount" /\ l.res = "ok" /\ l.mp = m THEN l.lab
        ELSE IF lv0[m] = <<>> /\ l.act = "Init" /\ (\E i \in 1..Len(l.calls) : l.calls[i].mp = m)
             THEN l.calls[CHOOSE i \in 1..Len(l.calls) : l.calls[i].mp = m].lab
        ELSE rl[m]]
WithReqLab(h, l, lv0, lv1) == [h EXCEPT !.reqLab = ReqLabNext(h.reqLab, l, lv0, lv1)]

ErrResults == {"notready", "nofs", "err"}

----------------------------------------------------------------------------
Init ==
    /\ status = "wait" /\ cfg = 0 /\ cur = 0
    /\ fsMap = [m \in Mps |-> 0]
    /\ store = [m \in Mps |-> NoRec]
    /\ insts = <<>>
    /\ live = [m \in Mps |-> <<>>]
    /\ liveLab = [m \in Mps |-> "none"]
    /\ epoch = 1 /\ ninit = 0
    /\ hist = NoHist
    /\ last = [act |-> "Start", res |-> "ok", calls |-> <<>>]

Refused == status = "closed" \/ (ReadyGate /\ status # "ready")

(* Server.Init. fail: "none" | "badcfg" (json.Unmarshal of the config fails: returns before fm.root/fm.config are set) |
   "cfgfunc" (a registered ConfigFunc fails) | "newfs" (service.NewFileSystem fails). rf: mountpoints whose restoring
   Mount fails if attempted. The deferred function sets status = Ready on EVERY path. restoreFuseInfo walks the bucket
   in key order and returns at the first error (bucket.ForEach). *)
InitReq(fail, rf) ==
    /\ status \in {"wait", "ready"}
    /\ ninit < MaxInit
    /\ LET c     == ninit + 1
           built == fail = "none"
           newId == Len(insts) + 1
           cur1  == IF built /\ (AdoptNewFs \/ cur = 0) THEN newId ELSE cur
           cand  == IF built /\ RestoreOnInit
                    THEN SelectSeq(MpOrder, LAMBDA m : Recorded(m) /\ (fsMap[m] = 0 \/ ~SkipServed))
                    ELSE <<>>
           bad   == {i \in 1..Len(cand) : cand[i] \in rf}
           ff    == IF bad = {} THEN 0 ELSE Min(bad)
           att   == IF ff = 0 THEN cand ELSE SubSeq(cand, 1, ff)
           okSet == Range(IF ff = 0 THEN cand ELSE SubSeq(cand, 1, ff - 1))
           res   == IF fail # "none" \/ ff # 0 THEN "err" ELSE "ok"
           live1 == [m \in Mps |-> IF m \in okSet THEN Append(live[m], cur1) ELSE live[m]]
       IN
        /\ ninit' = c
        /\ status' = "ready"
        /\ cfg' = IF fail = "badcfg" THEN cfg ELSE c
        /\ insts' = IF built THEN Append(insts, [cfg |-> c, epoch |-> epoch]) ELSE insts
        /\ cur' = cur1
        /\ fsMap' = [m \in Mps |-> IF m \in okSet THEN cur1 ELSE fsMap[m]]
        /\ live' = live1
        /\ liveLab' = [m \in Mps |-> IF m \in okSet THEN store[m].lab ELSE liveLab[m]]
        /\ UNCHANGED <<store, epoch>>
        /\ last' = [act |-> "Init", c |-> c, fail |-> fail, rf |-> rf, res |-> res,
                    calls |-> [i \in 1..Len(att) |-> Call(cur1, "Mount", att[i], store[att[i]].lab)]]
        /\ hist' = WithReqLab(HistAfterInit(hist, c, res, built, store, live1), last', live, live1)

Quiet(act, m, fsok, res) ==
    /\ UNCHANGED core
    /\ last' = [act |-> act, mp |-> m, fsok |-> fsok, res |-> res, calls |-> <<>>]
QuietMount(m, l, fsok, res) ==
    /\ UNCHANGED core
    /\ last' = [act |-> "Mount", mp |-> m, lab |-> l, fsok |-> fsok, res |-> res, calls |-> <<>>]

\* storeFuseInfo: bucket.Put replaces whatever record the mountpoint had
Put(st, m, l) == IF OverwriteRecord \/ ~RecordedIn(st, m) THEN [st EXCEPT ![m] = Rec(l, cfg)] ELSE st

(* Server.Mount: readiness gate; mount() (skip if in fsMap, else curFs.Mount, fsMap.Store); storeFuseInfo with the
   request's labels and the CURRENT config - also when mount() skipped. *)
MountReq(m, l, fsok) ==
    IF Refused THEN QuietMount(m, l, fsok, "notready")
    ELSE IF fsMap[m] # 0 /\ SkipServed THEN
        /\ store' = Put(store, m, l)
        /\ UNCHANGED <<status, cfg, cur, fsMap, insts, live, liveLab, epoch, ninit>>
        /\ last' = [act |-> "Mount", mp |-> m, lab |-> l, fsok |-> fsok, res |-> "ok", calls |-> <<>>]
        /\ hist' = WithReqLab(hist, last', live, live)
    ELSE IF cur = 0 THEN QuietMount(m, l, fsok, IF NilFsCheck THEN "err" ELSE "panic")
    ELSE
        /\ IF fsok
           THEN /\ fsMap' = [fsMap EXCEPT ![m] = cur]
                /\ live' = [live EXCEPT ![m] = Append(@, cur)]
                /\ liveLab' = [liveLab EXCEPT ![m] = l]
                /\ store' = Put(store, m, l)
           ELSE /\ UNCHANGED <<fsMap, live, liveLab>>
                /\ store' = IF RecordOnlyMounted THEN store ELSE Put(store, m, l)
        /\ UNCHANGED <<status, cfg, cur, insts, epoch, ninit>>
        /\ last' = [act |-> "Mount", mp |-> m, lab |-> l, fsok |-> fsok, res |-> IF fsok THEN "ok" ELSE "err",
                    calls |-> <<Call(cur, "Mount", m, l)>>]
        /\ hist' = WithReqLab(hist, last', live, live')

(* Server.Check: the instance found in fsMap checks; unknown mountpoint is an error *)
CheckReq(m, fsok) ==
    IF Refused THEN Quiet("Check", m, fsok, "notready")
    ELSE IF fsMap[m] = 0 THEN Quiet("Check", m, fsok, "nofs")
    ELSE LET t == IF UseCreator THEN fsMap[m] ELSE cur IN
        /\ UNCHANGED core
        /\ last' = [act |-> "Check", mp |-> m, fsok |-> fsok, res |-> IF fsok /\ HasMounted(t, m) THEN "ok" ELSE "err",
                    calls |-> <<Call(t, "Check", m, "chk")>>]

(* Server.Unmount: unknown to fsMap and not in the kernel mount table -> ok; else the instance found in fsMap
   unmounts, then fsMap.Delete and removeFuseInfo *)
UnmountReq(m, fsok) ==
    IF Refused THEN Quiet("Unmount", m, fsok, "notready")
    ELSE IF fsMap[m] = 0 THEN Quiet("Unmount", m, fsok, IF UnknownUnmountOK_G THEN "ok" ELSE "nofs")
    ELSE LET t  == IF UseCreator THEN fsMap[m] ELSE cur
             ok == fsok /\ HasMounted(t, m) IN
        /\ live' = IF ok THEN [live EXCEPT ![m] = RemoveOne(@, t)] ELSE live
        /\ liveLab' = IF ok /\ RemoveOne(live[m], t) = <<>> THEN [liveLab EXCEPT ![m] = "none"] ELSE liveLab
        /\ fsMap' = IF ok \/ ~KeepOnFailedUnmount THEN [fsMap EXCEPT ![m] = 0] ELSE fsMap
        /\ store' = IF (ok /\ ForgetOnUnmount) \/ (~ok /\ ~KeepOnFailedUnmount) THEN [store EXCEPT ![m] = NoRec] ELSE store
        /\ UNCHANGED <<status, cfg, cur, insts, epoch, ninit>>
        /\ last' = [act |-> "Unmount", mp |-> m, fsok |-> fsok, res |-> IF ok THEN "ok" ELSE "err",
                    calls |-> <<Call(t, "Unmount", m, "none")>>]
        /\ hist' = WithReqLab(hist, last', live, live')

(* the manager process dies (crash or kill) and a new one is started on the same store file *)
ManagerRestart ==
    /\ epoch < MaxEpoch
    /\ epoch' = epoch + 1
    /\ status' = "wait" /\ cfg' = 0 /\ cur' = 0
    /\ fsMap' = [m \in Mps |-> 0]
    /\ live' = [m \in Mps |-> <<>>]
    /\ liveLab' = [m \in Mps |-> "none"]
    /\ hist' = NoHist
    /\ UNCHANGED <<store, insts, ninit>>
    /\ last' = [act |-> "Restart", res |-> "ok", calls |-> <<>>]

(* crash points inside a request: the process dies between the filesystem's effect and the durable write that follows
   it (Mount: after curFs.Mount, before fsMap.Store/storeFuseInfo; Unmount: after fs.Unmount, before fsMap.Delete/
   removeFuseInfo). Whatever was mounted dies with the process; the store file is as it was before the request. *)
Died(act, m, l, c) ==
    /\ epoch < MaxEpoch
    /\ epoch' = epoch + 1
    /\ status' = "wait" /\ cfg' = 0 /\ cur' = 0
    /\ fsMap' = [x \in Mps |-> 0]
    /\ live' = [x \in Mps |-> <<>>]
    /\ liveLab' = [x \in Mps |-> "none"]
    /\ hist' = NoHist
    /\ UNCHANGED <<store, insts, ninit>>
    /\ last' = [act |-> act, mp |-> m, lab |-> l, res |-> "crash", calls |-> <<c>>]
MountCrash(m, l) ==
    /\ ~Refused /\ cur # 0 /\ (fsMap[m] = 0 \/ ~SkipServed)
    /\ Died("MountCrash", m, l, Call(cur, "Mount", m, l))
UnmountCrash(m) ==
    /\ ~Refused /\ fsMap[m] # 0
    /\ Died("UnmountCrash", m, "none", Call(IF UseCreator THEN fsMap[m] ELSE cur, "Unmount", m, "none"))

(* Server.Close (graceful shutdown): closes the bolt file and REMOVES it; nothing is unmounted *)
CloseReq ==
    /\ status \in {"wait", "ready"}
    /\ status' = "closed"
    /\ store' = [m \in Mps |-> NoRec]
    /\ UNCHANGED <<cfg, cur, fsMap, insts, live, liveLab, epoch, ninit, hist>>
    /\ last' = [act |-> "Close", res |-> "ok", calls |-> <<>>]

\* canonical environment choices (every behaviour of the code is produced by exactly one of them)
ToRestore == {m \in Mps : Recorded(m) /\ (fsMap[m] = 0 \/ ~SkipServed)}
FsReached(m) == ~Refused /\ ((fsMap[m] = 0 /\ cur # 0) \/ (fsMap[m] # 0 /\ ~SkipServed /\ cur # 0))

Next ==
    \/ \E f \in InitFails, rf \in SUBSET Mps :
          /\ Cardinality(rf) <= 1
          /\ rf \subseteq (IF f = "none" /\ RestoreOnInit THEN ToRestore ELSE {})
          /\ InitReq(f, rf)
    \/ \E m \in Mps, l \in Labs, fsok \in BOOLEAN : (fsok \/ FsReached(m)) /\ MountReq(m, l, fsok)
    \/ \E m \in Mps, fsok \in BOOLEAN : (fsok \/ (~Refused /\ fsMap[m] # 0)) /\ CheckReq(m, fsok)
    \/ \E m \in Mps, fsok \in BOOLEAN : (fsok \/ (~Refused /\ fsMap[m] # 0)) /\ UnmountReq(m, fsok)
    \/ ManagerRestart
    \/ \E m \in Mps, l \in Labs : MountCrash(m, l)
    \/ \E m \in Mps : UnmountCrash(m)
    \/ CloseReq

Spec == Init /\ [][Next]_vars

----------------------------------------------------------------------------
(* Property C17, over observables (status, store, live, insts, epoch, last) and the history hist                *)

Serving == {m \in Mps : live[m] # <<>>}
RecordedSet == {m \in Mps : Recorded(m)}
Calls(l) == {l.calls[i] : i \in 1..Len(l.calls)}

\* quiescent = between two requests of an initialised, running manager
Quiescent == status = "ready" /\ hist.inited

\* the store records exactly the mountpoints being served, plus at most those left unrestored by the last Init,
\* which then reported the error
RecordEqualsServing ==
    Quiescent =>
        /\ Serving \subseteq RecordedSet
        /\ (RecordedSet \ Serving) \subseteq hist.unrestored
        /\ ((RecordedSet \ Serving) # {} => hist.initErr)

\* ... and the recorded labels of a served mountpoint are labels it is served with: those of the filesystem-level mount
\* that is live on it, or those of the last request that was answered "ok, mounted" for it (the two differ only when a
\* Mount request names a mountpoint that is already served: mount() skips, storeFuseInfo records the request). A manager
\* restart re-mounts with the RECORDED labels, so anything else silently changes what the mountpoint shows.
RecordedLabelsServed ==
    Quiescent => \A m \in Serving : Recorded(m) => store[m].lab \in {liveLab[m], hist.reqLab[m]}

\* a served mountpoint is mounted once, by one instance, and that is the instance the manager's map names
NoSecondMount == \A m \in Mps : Len(live[m]) <= 1
MapMatchesLive == \A m \in Mps : IF fsMap[m] = 0 THEN live[m] = <<>> ELSE live[m] = <<fsMap[m]>>
\* no request (re-Init in particular) calls Mount for a mountpoint that is being served
NoRemountCall ==
    [][\A c \in Calls(last') : c.op = "Mount" => live[c.mp] = <<>>]_vars

\* Check/Unmount of a served mountpoint reach the instance that mounted it (not curFs), also after a failed re-Init
ServedByCreator ==
    [][(last'.act \in {"Check", "Unmount"} /\ Quiescent /\ live[last'.mp] # <<>>)
          => /\ Len(last'.calls) = 1
             /\ last'.calls[1] = Call(live[last'.mp][1], last'.act, last'.mp, IF last'.act = "Check" THEN "chk" ELSE "none")]_vars

\* every Mount call goes to an instance of the running process that was built from the configuration of the Init
\* request in progress, or - for a Mount request - of the last Init if that returned ok
NewMountsUseNewConfig ==
    [][\A c \in Calls(last') : c.op = "Mount" =>
          /\ c.inst \in 1..Len(insts')
          /\ insts'[c.inst].epoch = (IF last'.res = "crash" THEN epoch ELSE epoch')
          /\ (last'.act = "Init" => insts'[c.inst].cfg = last'.c)
          /\ (last'.act = "Mount" /\ hist.okCfg # 0 => insts'[c.inst].cfg = hist.okCfg)]_vars

\* Init mounts only recorded mountpoints, with the recorded labels; an Init that returns ok has mounted every
\* recorded mountpoint that was not being served (after a manager restart: all of them) exactly once
RestartRemountsRecordedWithLabels ==
    [][last'.act = "Init" =>
          /\ \A c \in Calls(last') : c.op = "Mount" /\ Recorded(c.mp) /\ c.lab = store[c.mp].lab
          /\ store' = store
          /\ last'.res = "ok" =>
                \A m \in Mps : (Recorded(m) /\ live[m] = <<>>) =>
                    /\ live'[m] # <<>>
                    /\ Cardinality({i \in 1..Len(last'.calls) : last'.calls[i].mp = m}) = 1]_vars

\* unmounting a mountpoint that is neither recorded nor mounted succeeds (and does nothing)
UnknownUnmountOK ==
    [][(last'.act = "Unmount" /\ Quiescent /\ ~Recorded(last'.mp) /\ live[last'.mp] = <<>>)
          => (last'.res = "ok" /\ last'.calls = <<>> /\ store' = store /\ live' = live)]_vars

\* requests before initialisation (no Init request has returned in this manager process) fail and do nothing
BeforeInitFails ==
    [][(last'.act \in {"Mount", "Check", "Unmount"} /\ ~hist.inited)
          => (last'.res \in ErrResults /\ last'.calls = <<>> /\ store' = store /\ live' = live)]_vars

\* ... and so does a Mount while no filesystem has ever been constructed (every Init so far failed before that):
\* it FAILS - it neither succeeds nor takes the manager down
NoFsMountFails ==
    [][(last'.act = "Mount" /\ ~hist.anyFs)
          => (last'.res \in ErrResults /\ last'.calls = <<>> /\ store' = store /\ live' = live)]_vars
NoPanic == last.res # "panic"

(* NOT part of C17 (the statement allows "at most those whose restoration failed ... which then reported the error"):
   the stricter reading that Init ATTEMPTS every recorded, unserved mountpoint. The code stops at the first failing
   record; TLC shows the counterexample (check stage "observation"). *)
StrictRestoreAttemptsAll ==
    [][(last'.act = "Init" /\ Len(insts') > Len(insts)) =>
          \A m \in Mps : (Recorded(m) /\ live[m] = <<>>) => \E c \in Calls(last') : c.mp = m]_vars

(* internal consistency (documents the design, not the property) *)
TypeOK ==
    /\ status \in {"wait", "ready", "closed"}
    /\ cur \in 0..Len(insts) /\ cfg \in 0..ninit
    /\ \A m \in Mps : fsMap[m] \in 0..Len(insts)
    /\ (cur = 0) = ~hist.anyFs
    /\ \A m \in Mps : fsMap[m] # 0 => insts[fsMap[m]].epoch = epoch
=============================================================================

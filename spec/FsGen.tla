------------------------------- MODULE FsGen -------------------------------
(* Generation: TLC prints every transition of the state graph as JSON; tools/vlib.py turns the edge list into walks that  *)
(* cover every edge; harness/fs/verif_fs_test.go executes them step by step on the real filesystem.                       *)
EXTENDS Fs, Json

CoreRec  == [lmap |-> lmap,  hs |-> hs,  objs |-> objs,  fuse |-> fuse,  pri |-> pri,  calls |-> calls]
CoreRecP == [lmap |-> lmap', hs |-> hs', objs |-> objs', fuse |-> fuse', pri |-> pri', calls |-> calls']

GenInit == Init /\ PrintT("VINIT " \o ToJson(CoreRec))
GenNext == Next /\ PrintT("VEDGE " \o ToJson([from |-> CoreRec, last |-> last', to |-> CoreRecP]))
=============================================================================

\* exhaustive, sequential: every blob size 0..5, chunk 1..3, (off, len), <= 2 calls, scripts of <= 3 requests,
\* one cache loss, one failing commit; every split of a chunk's bytes into Write calls
CONSTANTS
    Sizes = {0, 1, 2, 3, 4, 5}
    Chunks = {1, 2, 3}
    Readers = {"r1"}
    Ops = {"read", "cache"}
    Pers = {"multi", "multirev", "first", "super", "whole", "short", "shift", "half", "e400", "e403", "e403f", "err"}
    MaxLen = 6
    MaxOps = 2
    MaxReq = 3
    MaxLoss = 1
    MaxCFail = 1
    MaxInflight = 1
    LossMidCall = TRUE
    Segment = TRUE
    AllSeenCheck = TRUE
    AlignCheck = TRUE
    WriterVariant = "code"
    RetryFreshWriter = FALSE
INIT Init
NEXT Next
VIEW core
INVARIANTS RegionSetIsUnion FetchedSizeIsDistinctBytes FetchedSizeLeSize CacheExact CacheIsCommitted KeysAligned FlightsHaveLeader
PROPERTIES ReadExact ErrOrExact FetchedSizeMonotone
CHECK_DEADLOCK FALSE

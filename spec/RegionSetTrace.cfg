CONSTANTS
    MaxPos = 1000000
    Variant = "code"
SPECIFICATION TraceSpec
CONSTRAINT HighWater
INVARIANTS RegionSetIsUnion RegionSetNormal TotalIsDistinctBytes
POSTCONDITION TraceAccepted
CHECK_DEADLOCK FALSE

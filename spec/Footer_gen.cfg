CONSTANTS
    Kinds = {"estargz", "legacy", "zstd", "ext"}
    BLens = {"0", "1", "lt", "eq", "gt"}
    Muts = {"none", "gzmagic", "xlen0", "xlenshort", "xlenlong", "lenshort", "lenlong", "subshort", "sgmagic", "zmagic"}
    Offs = {"zero", "small", "inside", "size", "beyond", "near63", "max", "nonhex"}
    Lens = {"ok", "zero", "wrap", "max63", "big62", "max64"}
    Opts = {"none", "inside", "end", "beyond"}
    GuardLen = TRUE
INIT GenInit
NEXT Next
INVARIANTS ShortNeverValid AllowedNonEmpty ShortMustFail
CHECK_DEADLOCK FALSE

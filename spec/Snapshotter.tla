---------------------------- MODULE Snapshotter ----------------------------
(***************************************************************************)
(* The remote snapshotter of snapshot/snapshot.go: one caller, every call  *)
(* decomposed into the steps between two durable effects (properties C08   *)
(* and C09).  Three stores are updated non-atomically:                     *)
(*   meta    the bolt metadata (changes only when a write txn commits)     *)
(*   dirs    <root>/snapshots/<id>      tmps  number of new-* temporaries  *)
(*   mounts  the backend's (snapshot.FileSystem) mount table, volatile     *)
(* plus stale: kernel mounts a dead process left behind.                   *)
(*                                                                         *)
(* Every action corresponds to ONE observable event of the real code:      *)
(*   Call/Return   the driver enters / leaves an API call                  *)
(*   Hook <name>   a verifhook.CrashPoint("snap.<name>") was passed        *)
(*   FsMount/FsUnmount   the code called the backend                       *)
(*   Crash, Restart, Started, StartFailed                                  *)
(* so a recorded execution is validated step by step (SnapshotterTrace)    *)
(* and `Crash' may be taken after any of them.                             *)
(*                                                                         *)
(* Deliberate deviations from the code are marked DEVIATION.               *)
(***************************************************************************)
EXTENDS Integers, Sequences, FiniteSets, TLC

CONSTANTS
    Keys,        \* names used for active/view snapshots (strings)
    CNames,      \* names used for committed snapshots = Prepare targets = parents (strings)
    MaxId,       \* bound on snapshot ids handed out
    MaxOps,      \* bound on API calls
    MaxRestarts, \* bound on restarts (and therefore on crashes/closes)
    Async,       \* snapshot.AsynchronousRemove
    AnyOrder,    \* TRUE: orphan directories are reclaimed in any (readdir) order; FALSE: ascending (generation)
    UnmountFaults, \* TRUE: a backend Unmount that hits a live mount may fail
    InitCommitted, \* TRUE: start with one committed remote snapshot c1 (id 1, mounted) instead of an empty root
    SurviveModes,  \* subset of BOOLEAN: may the backend (fuse manager) survive a crash of the snapshotter?
    \* negative controls: TRUE = what the code does
    LabelOnlyIfMounted,  \* Prepare commits the target as remote only after a successful backend Mount
    CheckWholeChain,     \* availability check covers every remote layer of the parent chain
    UnmountFirst,        \* cleanupSnapshotDirectory: Unmount, then RemoveAll
    NearestFirst,        \* lowerdir lists the nearest parent first
    RestoreMkdir,        \* restore recreates the directories before mounting
    RestoreStoredLabels, \* restore mounts with the labels stored in the metadata
    HonourAllowInvalid,  \* a failing restore mount aborts the start unless allowInvalidMountsOnRestart
    RenameBeforeCommit,  \* createSnapshot renames the temporary into place before committing the txn
    CleanupScansTemps,   \* the orphan scan also reclaims new-* temporaries
    RestoreMkdirOnlyIfParentMissing  \* NEGATIVE CONTROL, FALSE = the code: restore creates <id> AND <id>/fs, each if missing;
                         \* TRUE: <id>/fs is only created when <id> itself had to be created

VARIABLES
    meta,    \* [Names -> snapshot record]; kind "none" = absent. The COMMITTED bolt state
    seq,     \* bolt's id sequence (committed); a rolled-back create does not advance it
    dirs,    \* directories below snapshots/: d = <d> exists with its fs entry (complete), -d = <d> exists WITHOUT fs
             \* (what a kill inside os.RemoveAll(<d>) or between the two mkdirs of restore leaves); neither = absent
    tmps,    \* number of new-* directories
    mounts,  \* backend mount table: sequence of [d, ref, u] sorted by d
    stale,   \* ids whose fs directory carries a kernel mount no backend knows (left by a dead process)
    up,      \* "up" | "down"
    bsurv,   \* while down: did the backend survive (=> the next start runs with NoRestore, as main.go does)
    op,      \* the call in flight (program counter + locals); crash discards it
    nops, nrs,
    last     \* observation: the event just produced

Names == Keys \cup CNames
\* bolt iterates buckets in byte order of the names; Walk and therefore restore follow it (names come from this universe)
NameSeq == SelectSeq(<<"c1", "c2", "c3", "k1", "k2", "k3">>, LAMBDA n : n \in Names)
ASSUME Len(NameSeq) = Cardinality(Names)
core == <<meta, seq, dirs, tmps, mounts, stale, up, bsurv, op, nops, nrs>>
vars == <<meta, seq, dirs, tmps, mounts, stale, up, bsurv, op, nops, nrs, last>>

NoRec == [id |-> 0, kind |-> "none", parent |-> "", remote |-> FALSE, ref |-> "", u |-> 0]
IdleOp == [name |-> "idle", pc |-> "", k |-> "", p |-> "", tgt |-> "", u |-> 0, id |-> 0,
           todo |-> {}, tt |-> 0, cur |-> -1, err |-> "", made |-> FALSE, created |-> FALSE,
           tasks |-> <<>>, ai |-> FALSE, nr |-> FALSE, failed |-> {}, imp |-> {}, had |-> FALSE, leaf |-> FALSE]

Has(m, n) == n \in Names /\ m[n].kind # "none"
Exists(n) == Has(meta, n)
IdsOf(m) == {m[n].id : n \in {x \in Names : m[x].kind # "none"}}
DirIds == {IF x > 0 THEN x ELSE -x : x \in dirs}     \* ids that have a directory entry at all (readdir)
MDirsOf(ms) == {ms[i].d : i \in DOMAIN ms}
MDirs == MDirsOf(mounts)
MCount(ms, d) == Cardinality({i \in DOMAIN ms : ms[i].d = d})
Min(S) == CHOOSE x \in S : \A y \in S : x <= y
Rev(s) == [i \in 1..Len(s) |-> s[Len(s) + 1 - i]]

\* names from n upwards along .parent (fuel bounds the walk on broken recorded states)
RECURSIVE ChainF(_, _, _)
ChainF(m, n, fuel) ==
    IF n = "" \/ fuel = 0 \/ ~Has(m, n) THEN <<>> ELSE <<n>> \o ChainF(m, m[n].parent, fuel - 1)
ChainOf(m, n) == ChainF(m, n, Cardinality(Names) + 1)
ChainIds(m, n) == LET c == ChainOf(m, n) IN [i \in 1..Len(c) |-> m[c[i]].id]
RemoteIdsIn(m, n) == LET c == ChainOf(m, n) IN {m[c[i]].id : i \in {j \in 1..Len(c) : m[c[j]].remote}}
HasChild(m, n) == \E c \in Names : Has(m, c) /\ m[c].parent = n

InsertMount(ms, r) ==
    LET lo == SelectSeq(ms, LAMBDA x : x.d <= r.d)
        hi == SelectSeq(ms, LAMBDA x : x.d > r.d)
    IN lo \o <<r>> \o hi
DropMount(ms, d) == SelectSeq(ms, LAMBDA x : x.d # d)

RemoteNames(m) == SelectSeq(NameSeq, LAMBDA n : Has(m, n) /\ m[n].remote)

Hook(n) == [act |-> "Hook", name |-> n]
InOp(n) == up = "up" /\ op.name = n
Creating == op.name \in {"Prepare", "View"}

----------------------------------------------------------------------------
\* the initial state: an empty root, or (InitCommitted) what Prepare(k1, "", target c1) with a successful backend Mount
\* leaves behind - the database is then no longer virgin
InitMeta == [n \in Names |-> IF InitCommitted /\ n = "c1"
                                THEN [id |-> 1, kind |-> "committed", parent |-> "", remote |-> TRUE, ref |-> "c1", u |-> 0]
                                ELSE NoRec]
InitSeq == IF InitCommitted THEN 1 ELSE 0
InitDirs == IF InitCommitted THEN {1} ELSE {}
InitMounts == IF InitCommitted THEN <<[d |-> 1, ref |-> "c1", u |-> 0]>> ELSE <<>>
Init ==
    /\ meta = InitMeta /\ seq = InitSeq /\ dirs = InitDirs /\ tmps = 0
    /\ mounts = InitMounts /\ stale = {} /\ up = "up" /\ bsurv = FALSE
    /\ op = IdleOp /\ nops = 0 /\ nrs = 0
    /\ last = [act |-> "Init"]

Call(name, k, p, tgt, u) ==
    /\ up = "up" /\ op.name = "idle" /\ nops < MaxOps
    /\ op' = [IdleOp EXCEPT !.name = name, !.pc = "start", !.k = k, !.p = p, !.tgt = tgt, !.u = u,
                          !.had = Exists(k), !.leaf = ~HasChild(meta, k)]
    /\ nops' = nops + 1
    /\ last' = [act |-> "Call", op |-> name, k |-> k, p |-> p, tgt |-> tgt, u |-> u]
    /\ UNCHANGED <<meta, seq, dirs, tmps, mounts, stale, up, bsurv, nrs>>

CallPrepare == \E k \in Keys, p \in CNames \cup {""}, t \in CNames \cup {""} : seq < MaxId /\ Call("Prepare", k, p, t, 0)
CallView    == \E k \in Keys, p \in CNames \cup {""} : seq < MaxId /\ Call("View", k, p, "", 0)
CallCommit  == \E n \in CNames, k \in Keys : Call("Commit", k, "", n, 0)
CallRemove  == \E n \in Names : Call("Remove", n, "", "", 0)
CallMounts  == \E n \in Names : Call("Mounts", n, "", "", 0)
CallUpdate  == \E n \in Names : Call("Update", n, "", "", 1)
CallCleanup == Call("Cleanup", "", "", "", 0)
CallClose   == Call("Close", "", "", "", 0)

----------------------------------------------------------------------------
(* createSnapshot: write txn open from the start, MkdirTemp, storage.CreateSnapshot (id = seq+1, not yet  *)
(* durable), stat parent, Rename, txn commit.                                                            *)

CS_MkTemp ==
    /\ up = "up" /\ Creating /\ op.pc = "start"
    /\ tmps' = tmps + 1
    /\ op' = [op EXCEPT !.pc = "mktemp"]
    /\ last' = Hook("create.mktemp")
    /\ UNCHANGED <<meta, seq, dirs, mounts, stale, up, bsurv, nops, nrs>>

\* storage.CreateSnapshot checks the parent first, then the key; then createSnapshot stats the parent's fs directory
CreateErr ==
    IF op.p # "" /\ ~Exists(op.p) THEN "notfound"
    ELSE IF op.p # "" /\ meta[op.p].kind # "committed" THEN "other"
    ELSE IF Exists(op.k) THEN "exists"
    ELSE IF op.p # "" /\ meta[op.p].id \notin dirs THEN "other"
    ELSE ""
\* a rolled-back create re-uses the id: the rename target can be an orphan directory (ENOTEMPTY)
RenameCollides == (seq + 1) \in dirs

NewRec == [id |-> seq + 1, kind |-> IF op.name = "Prepare" THEN "active" ELSE "view", parent |-> op.p,
           remote |-> FALSE, ref |-> op.tgt, u |-> op.u]

CS_Rename ==
    /\ up = "up" /\ Creating
    /\ \/ RenameBeforeCommit /\ op.pc = "mktemp" /\ CreateErr = "" /\ ~RenameCollides
          /\ op' = [op EXCEPT !.pc = "rename", !.id = seq + 1]
          /\ dirs' = dirs \cup {seq + 1}
       \/ ~RenameBeforeCommit /\ op.pc = "commitearly"
          /\ op' = [op EXCEPT !.pc = "created"]
          /\ dirs' = dirs \cup {op.id}
    /\ tmps' = tmps - 1
    /\ last' = Hook("create.rename")
    /\ UNCHANGED <<meta, seq, mounts, stale, up, bsurv, nops, nrs>>

CS_Commit ==
    /\ up = "up" /\ Creating
    /\ \/ RenameBeforeCommit /\ op.pc = "rename"
          /\ op' = [op EXCEPT !.pc = "created", !.created = TRUE]
       \/ ~RenameBeforeCommit /\ op.pc = "mktemp" /\ CreateErr = "" /\ ~RenameCollides
          /\ op' = [op EXCEPT !.pc = "commitearly", !.created = TRUE, !.id = seq + 1]
    /\ meta' = [meta EXCEPT ![op.k] = NewRec]
    /\ seq' = seq + 1
    /\ last' = Hook("create.commit")
    /\ UNCHANGED <<dirs, tmps, mounts, stale, up, bsurv, nops, nrs>>

\* the deferred failure path: txn rolled back; reclaim the temporary and, after a failed rename, the target path
CS_Fail ==
    /\ up = "up" /\ Creating /\ op.pc = "mktemp"
    /\ CreateErr # "" \/ RenameCollides
    /\ op' = [op EXCEPT !.pc = "cleaning", !.tt = 1,
                        !.err = IF CreateErr # "" THEN CreateErr ELSE "other",
                        !.todo = IF CreateErr = "" THEN {seq + 1} ELSE {}]
    /\ last' = Hook("create.failed")
    /\ UNCHANGED <<meta, seq, dirs, tmps, mounts, stale, up, bsurv, nops, nrs>>

----------------------------------------------------------------------------
(* cleanupSnapshotDirectory(dir) for every directory of op.todo (ids) and op.tt temporaries:             *)
(* backend Unmount (error ignored), then RemoveAll, which fails with EBUSY while the fs directory is a   *)
(* mountpoint (production semantics; the driver's backend really mounts a tmpfs).  0 stands for a new-*. *)

PickSet == (IF op.tt > 0 THEN {0} ELSE {}) \cup op.todo
Pickable ==
    IF Creating THEN (IF op.tt > 0 THEN {0} ELSE op.todo)     \* code order: td, then path
    ELSE IF AnyOrder \/ PickSet = {} THEN PickSet ELSE {Min(PickSet)}

UnmountEffect(d, res) ==
    LET hit == d \in MDirs IN
    /\ res \in (IF hit /\ UnmountFaults THEN {"ok", "fail"} ELSE IF hit THEN {"ok"} ELSE {"fail"})
    /\ mounts' = IF hit /\ res = "ok" THEN DropMount(mounts, d) ELSE mounts
    /\ last' = [act |-> "FsUnmount", d |-> d, hit |-> hit, ok |-> (res = "ok"), op |-> op.name]

RmdirEffect(d, ms) ==
    /\ IF d = 0 THEN tmps' = tmps - 1 /\ dirs' = dirs
       ELSE tmps' = tmps /\ dirs' = IF d \in MDirsOf(ms) \/ d \in stale THEN dirs ELSE dirs \ {d, -d}
    /\ last' = [act |-> "Hook", name |-> "cleanupdir.done", d |-> d]

\* first half of cleanupSnapshotDirectory for a freshly picked directory
CD_First(d, res) ==
    /\ up = "up" /\ op.pc = "cleaning" /\ op.cur = -1 /\ d \in Pickable
    /\ op' = [op EXCEPT !.cur = d]
    /\ IF UnmountFirst
       THEN UnmountEffect(d, res) /\ UNCHANGED <<dirs, tmps>>
       ELSE res = "ok" /\ RmdirEffect(d, mounts) /\ UNCHANGED mounts
    /\ UNCHANGED <<meta, seq, stale, up, bsurv, nops, nrs>>

CD_Second(res) ==
    /\ up = "up" /\ op.pc = "cleaning" /\ op.cur >= 0
    /\ op' = [op EXCEPT !.cur = -1, !.todo = @ \ {op.cur}, !.tt = IF op.cur = 0 THEN @ - 1 ELSE @]
    /\ IF UnmountFirst
       THEN res = "ok" /\ RmdirEffect(op.cur, mounts) /\ UNCHANGED mounts
       ELSE UnmountEffect(op.cur, res) /\ UNCHANGED <<dirs, tmps>>
    /\ UNCHANGED <<meta, seq, stale, up, bsurv, nops, nrs>>

Cleaned == op.pc = "cleaning" /\ op.cur = -1 /\ op.todo = {} /\ op.tt = 0

----------------------------------------------------------------------------
(* results                                                                                               *)

Ret(err, lower, called, bad) ==
    [act |-> "Return", op |-> op.name, k |-> op.k, p |-> op.p, tgt |-> op.tgt, err |-> err,
     lower |-> lower, called |-> called, bad |-> bad, created |-> op.created, made |-> op.made,
     had |-> op.had, leaf |-> op.leaf]

Finish(l) ==
    /\ op' = IdleOp /\ last' = l
    /\ UNCHANGED <<seq, dirs, tmps, mounts, stale, up, bsurv, nops, nrs>>

\* mounts(s, checkKey): checkAvailability(checkKey) asks the backend about every remote layer of the chain
\* (errgroup, all of them are asked); `bad' = the layers whose Check fails (environment)
Lower(par) == LET c == ChainIds(meta, par) IN IF NearestFirst THEN c ELSE Rev(c)
Asked(checkKey) ==
    IF CheckWholeChain THEN RemoteIdsIn(meta, checkKey)
    ELSE IF Exists(checkKey) /\ meta[checkKey].remote THEN {meta[checkKey].id} ELSE {}
FinishMounts(checkKey, par, bad) ==
    /\ bad \subseteq RemoteIdsIn(meta, checkKey)
    /\ LET called == Asked(checkKey)
           err == IF called \cap bad # {} THEN "unavail" ELSE "nil"
       IN Finish(Ret(err, IF err = "nil" THEN Lower(par) ELSE <<>>, called, bad))
    /\ UNCHANGED meta

R_CreateFailed == up = "up" /\ Creating /\ Cleaned /\ Finish(Ret(op.err, <<>>, {}, {})) /\ UNCHANGED meta

\* Prepare without target, View, and the fallback of a Prepare whose backend Mount failed
R_Created ==
    /\ up = "up" /\ Creating
    /\ \/ op.pc = "created" /\ (op.name = "View" \/ op.tgt = "")
       \/ op.pc = "mountfail"
    /\ \E bad \in SUBSET RemoteIdsIn(meta, op.p) : FinishMounts(op.p, op.p, bad)

\* prepareRemoteSnapshot: backend Mount on the new snapshot's fs directory with the labels given to Prepare
PR_Mount(res) ==
    /\ InOp("Prepare") /\ op.pc = "created" /\ op.tgt # ""
    /\ res \in {"ok", "fail"}
    /\ mounts' = IF res = "ok" THEN InsertMount(mounts, [d |-> op.id, ref |-> op.tgt, u |-> op.u]) ELSE mounts
    /\ op' = [op EXCEPT !.pc = IF res = "ok" \/ ~LabelOnlyIfMounted THEN "mounted" ELSE "mountfail"]
    /\ last' = [act |-> "FsMount", d |-> op.id, ok |-> (res = "ok"), ref |-> op.tgt, u |-> op.u, op |-> op.name]
    /\ UNCHANGED <<meta, seq, dirs, tmps, stale, up, bsurv, nops, nrs>>

\* commit(isRemote=true, target, key, labels+remote): one write txn. AlreadyExists when ANY snapshot has that name
PR_Commit ==
    /\ InOp("Prepare") /\ op.pc = "mounted"
    /\ IF Exists(op.tgt)
       THEN /\ op' = [op EXCEPT !.pc = "exists"] /\ UNCHANGED meta
       ELSE /\ op' = [op EXCEPT !.pc = "committed", !.made = TRUE]
            /\ meta' = [meta EXCEPT ![op.tgt] = [meta[op.k] EXCEPT !.kind = "committed", !.remote = TRUE],
                                    ![op.k] = NoRec]
    /\ last' = Hook("commit.return")
    /\ UNCHANGED <<seq, dirs, tmps, mounts, stale, up, bsurv, nops, nrs>>

R_PrepareRemote ==
    /\ InOp("Prepare") /\ op.pc \in {"exists", "committed"}
    /\ Finish(Ret("exists", <<>>, {}, {})) /\ UNCHANGED meta

\* Commit(name, key): GetInfo(key), DiskUsage(upper), CommitActive (labels are replaced, not inherited)
CommitErr ==
    IF ~Exists(op.k) THEN "notfound"
    ELSE IF meta[op.k].id \notin dirs THEN "other"
    ELSE IF Exists(op.tgt) THEN "exists"
    ELSE IF meta[op.k].kind # "active" THEN "other"
    ELSE ""
CM_Txn ==
    /\ InOp("Commit") /\ op.pc = "start"
    /\ op' = [op EXCEPT !.pc = "done", !.err = IF CommitErr = "" THEN "nil" ELSE CommitErr]
    /\ meta' = IF CommitErr # "" THEN meta
               ELSE [meta EXCEPT ![op.tgt] = [meta[op.k] EXCEPT !.kind = "committed", !.remote = FALSE, !.ref = "", !.u = 0],
                                 ![op.k] = NoRec]
    /\ last' = Hook("commit.return")
    /\ UNCHANGED <<seq, dirs, tmps, mounts, stale, up, bsurv, nops, nrs>>
R_Commit == InOp("Commit") /\ op.pc = "done" /\ Finish(Ret(op.err, <<>>, {}, {})) /\ UNCHANGED meta

\* Remove(key): storage.Remove + (synchronous mode) scan for every directory no snapshot owns, under the write txn;
\* the directories are reclaimed after the commit
RemoveErr == IF ~Exists(op.k) THEN "notfound" ELSE IF HasChild(meta, op.k) THEN "other" ELSE ""
Removed == [meta EXCEPT ![op.k] = NoRec]
Orphans(m) == DirIds \ IdsOf(m)
RM_Txn ==
    /\ InOp("Remove") /\ op.pc = "start" /\ ~Async /\ RemoveErr = ""
    /\ meta' = Removed
    /\ op' = [op EXCEPT !.pc = "cleaning", !.todo = Orphans(Removed), !.tt = IF CleanupScansTemps THEN tmps ELSE 0]
    /\ last' = Hook("remove.commit")
    /\ UNCHANGED <<seq, dirs, tmps, mounts, stale, up, bsurv, nops, nrs>>
R_Remove ==
    /\ InOp("Remove")
    /\ \/ op.pc = "start" /\ RemoveErr # "" /\ Finish(Ret(RemoveErr, <<>>, {}, {})) /\ UNCHANGED meta
       \/ op.pc = "start" /\ RemoveErr = "" /\ Async /\ Finish(Ret("nil", <<>>, {}, {})) /\ meta' = Removed
       \/ Cleaned /\ Finish(Ret("nil", <<>>, {}, {})) /\ UNCHANGED meta

\* As long as no snapshot was ever committed the database has no buckets and storage.IDMap fails with NotFound:
\* Cleanup returns that error without scanning, Close logs it and closes (seq = 0 <=> no create ever committed)
Virgin == seq = 0
\* Cleanup / Close: scan (write txn, rolled back), then reclaim. Close scans for the directories of remote-labelled
\* snapshots instead (cleanupCommitted) and closes the database
CL_Scan ==
    /\ up = "up" /\ op.name \in {"Cleanup", "Close"} /\ op.pc = "start"
    /\ ~Virgin
    /\ op' = [op EXCEPT !.pc = "cleaning",
                        !.todo = IF op.name = "Cleanup" THEN Orphans(meta)
                                 ELSE {meta[n].id : n \in {x \in Names : Exists(x) /\ meta[x].remote}} \cap DirIds,
                        !.tt = IF op.name = "Cleanup" /\ CleanupScansTemps THEN tmps ELSE 0]
    /\ last' = Hook("cleanup.scan")
    /\ UNCHANGED <<meta, seq, dirs, tmps, mounts, stale, up, bsurv, nops, nrs>>
R_Cleanup ==
    /\ InOp("Cleanup") /\ UNCHANGED meta
    /\ \/ Cleaned /\ Finish(Ret("nil", <<>>, {}, {}))
       \/ op.pc = "start" /\ Virgin /\ Finish(Ret("notfound", <<>>, {}, {}))
\* DEVIATION: after Close the process is assumed to exit with an in-process backend (what it still had mounted
\* becomes a dead kernel mount); Close followed by a NoRestore start (fuse manager mode) is not modelled
R_Close ==
    /\ InOp("Close") /\ (Cleaned \/ (op.pc = "start" /\ Virgin))
    /\ op' = IdleOp /\ last' = Ret("nil", <<>>, {}, {})
    /\ up' = "down" /\ bsurv' = FALSE /\ stale' = stale \cup MDirs /\ mounts' = <<>>
    /\ UNCHANGED <<meta, seq, dirs, tmps, nops, nrs>>

R_Mounts ==
    /\ InOp("Mounts") /\ op.pc = "start"
    /\ IF ~Exists(op.k) THEN Finish(Ret("notfound", <<>>, {}, {})) /\ UNCHANGED meta
       ELSE IF meta[op.k].kind = "committed" THEN Finish(Ret("other", <<>>, {}, {})) /\ UNCHANGED meta
       ELSE \E bad \in SUBSET RemoteIdsIn(meta, op.k) : FinishMounts(op.k, meta[op.k].parent, bad)

\* Update(info, "labels.<user label>")   DEVIATION: only a user label is updated, never the remote/target label
R_Update ==
    /\ InOp("Update") /\ op.pc = "start"
    /\ IF Exists(op.k) THEN meta' = [meta EXCEPT ![op.k].u = op.u] /\ Finish(Ret("nil", <<>>, {}, {}))
       ELSE UNCHANGED meta /\ Finish(Ret("notfound", <<>>, {}, {}))

----------------------------------------------------------------------------
(* crash and restart                                                                                      *)

\* the process dies: the call in flight and its open txn vanish. An in-process backend dies with it (its mounts
\* stay in the kernel as dead mounts); a fuse manager survives with its table (bs)
\* DEVIATION: a crash during restore or during Close (which main.go runs in fuse manager mode only to shut the manager
\* down as well) is only modelled with a backend that dies too
\* A kill inside os.RemoveAll(<d>) of Close (after the Unmount, before cleanupdir.done) can leave <d> without fs; a kill
\* between the two mkdirs of restore leaves the new <d> without fs.  TornDir = the directory concerned, 0 = none.
\* DEVIATION: the partial removal is modelled for Close only (elsewhere the half-removed directory is just an orphan)
TornDir ==
    IF up = "up" /\ op.name = "Close" /\ op.pc = "cleaning" /\ UnmountFirst /\ op.cur > 0 /\ op.cur \in dirs /\ op.cur \notin MDirs
    THEN op.cur
    ELSE IF op.name = "Restart" /\ op.pc = "tasks" /\ op.tasks # <<>> /\ meta[Head(op.tasks)].id \notin DirIds /\ RestoreMkdir
    THEN meta[Head(op.tasks)].id
    ELSE 0
Crash(bs, torn) ==
    /\ up = "up" \/ op.name = "Restart"
    /\ nrs < MaxRestarts
    /\ bs \in SurviveModes /\ (op.name \in {"Restart", "Close"} => ~bs)
    /\ torn => TornDir # 0
    /\ op' = IdleOp /\ up' = "down" /\ bsurv' = bs
    /\ IF bs THEN UNCHANGED <<mounts, stale>> ELSE stale' = stale \cup MDirs /\ mounts' = <<>>
    /\ dirs' = IF torn THEN (dirs \ {TornDir}) \cup {-TornDir} ELSE dirs
    /\ last' = [act |-> "Crash", bs |-> bs, d |-> IF torn THEN TornDir ELSE 0]
    /\ UNCHANGED <<meta, seq, tmps, nops, nrs>>

\* NewSnapshotter on the same root. NoRestore iff the backend survived (cmd/containerd-stargz-grpc/main.go)
RS_Begin(ai) ==
    /\ up = "down" /\ op.name = "idle" /\ nrs < MaxRestarts
    /\ nrs' = nrs + 1
    /\ op' = [IdleOp EXCEPT !.name = "Restart", !.ai = ai, !.nr = bsurv, !.pc = IF bsurv THEN "ready" ELSE "start"]
    /\ last' = [act |-> "Restart", ai |-> ai, nr |-> bsurv]
    /\ UNCHANGED <<meta, seq, dirs, tmps, mounts, stale, up, bsurv, nops>>

\* force-unmount of everything mounted below <root>/snapshots, then Walk for remote-labelled snapshots
RS_Unmount ==
    /\ op.name = "Restart" /\ op.pc = "start"
    /\ stale' = {}
    /\ op' = [op EXCEPT !.pc = "tasks", !.tasks = RemoteNames(meta)]
    /\ last' = Hook("restore.unmounted")
    /\ UNCHANGED <<meta, seq, dirs, tmps, mounts, up, bsurv, nops, nrs>>

RS_Mkdir ==
    /\ op.name = "Restart" /\ op.pc = "tasks" /\ op.tasks # <<>>
    /\ LET d == meta[Head(op.tasks)].id IN      \* Mkdir(<d>) and Mkdir(<d>/fs), "exists" tolerated for both
       dirs' = IF ~RestoreMkdir \/ (RestoreMkdirOnlyIfParentMissing /\ d \in DirIds) THEN dirs
               ELSE (dirs \ {-d}) \cup {d}
    /\ op' = [op EXCEPT !.pc = "mkdired"]
    /\ last' = [act |-> "Hook", name |-> "restore.mkdir", k |-> Head(op.tasks)]
    /\ UNCHANGED <<meta, seq, tmps, mounts, stale, up, bsurv, nops, nrs>>

RS_Mount(res) ==
    /\ op.name = "Restart" /\ op.pc = "mkdired"
    /\ LET n == Head(op.tasks)
           d == meta[n].id
           ref == IF RestoreStoredLabels THEN meta[n].ref ELSE ""
           u == IF RestoreStoredLabels THEN meta[n].u ELSE 0
       IN
        /\ res \in (IF d \in dirs THEN {"ok", "fail"} ELSE {"fail"})     \* no mountpoint, no mount
        /\ mounts' = IF res = "ok" THEN InsertMount(mounts, [d |-> d, ref |-> ref, u |-> u]) ELSE mounts
        /\ op' = [op EXCEPT !.tasks = Tail(@),
                            !.failed = IF res = "ok" THEN @ ELSE @ \cup {d},
                            !.imp = IF res = "fail" /\ d \in dirs THEN @ \cup {d} ELSE @,   \* failures the environment chose
                            !.pc = IF res = "ok" \/ op.ai \/ ~HonourAllowInvalid THEN "tasks" ELSE "failed"]
        /\ last' = [act |-> "FsMount", d |-> d, ok |-> (res = "ok"), ref |-> ref, u |-> u, op |-> "Restart"]
    /\ UNCHANGED <<meta, seq, dirs, tmps, stale, up, bsurv, nops, nrs>>

RS_Done ==
    /\ op.name = "Restart" /\ (op.pc = "ready" \/ (op.pc = "tasks" /\ op.tasks = <<>>))
    /\ up' = "up" /\ op' = IdleOp
    /\ last' = [act |-> "Started", ai |-> op.ai, nr |-> op.nr, failed |-> op.failed, imp |-> op.imp]
    /\ UNCHANGED <<meta, seq, dirs, tmps, mounts, stale, bsurv, nops, nrs>>

\* NewSnapshotter returned an error; the process exits, what it mounted so far stays behind in the kernel
RS_Failed ==
    /\ op.name = "Restart" /\ op.pc = "failed"
    /\ op' = IdleOp /\ bsurv' = FALSE /\ stale' = stale \cup MDirs /\ mounts' = <<>>
    /\ last' = [act |-> "StartFailed", ai |-> op.ai, nr |-> op.nr, failed |-> op.failed, imp |-> op.imp]
    /\ UNCHANGED <<meta, seq, dirs, tmps, up, nops, nrs>>

----------------------------------------------------------------------------
Next ==
    \/ CallPrepare \/ CallView \/ CallCommit \/ CallRemove \/ CallMounts \/ CallUpdate \/ CallCleanup \/ CallClose
    \/ CS_MkTemp \/ CS_Rename \/ CS_Commit \/ CS_Fail
    \/ \E d \in 0..MaxId, res \in {"ok", "fail"} : CD_First(d, res)
    \/ \E res \in {"ok", "fail"} : CD_Second(res)
    \/ R_CreateFailed \/ R_Created
    \/ \E res \in {"ok", "fail"} : PR_Mount(res)
    \/ PR_Commit \/ R_PrepareRemote
    \/ CM_Txn \/ R_Commit
    \/ RM_Txn \/ R_Remove
    \/ CL_Scan \/ R_Cleanup \/ R_Close
    \/ R_Mounts \/ R_Update
    \/ \E bs \in BOOLEAN, torn \in BOOLEAN : Crash(bs, torn)
    \/ \E ai \in BOOLEAN : RS_Begin(ai)
    \/ RS_Unmount \/ RS_Mkdir
    \/ \E res \in {"ok", "fail"} : RS_Mount(res)
    \/ RS_Done \/ RS_Failed

Spec == Init /\ [][Next]_vars

----------------------------------------------------------------------------
(* PROPERTY C08 - formulas over the observable state (meta, dirs, tmps, mounts, stale) and the event `last' *)
(* only, so that the monitor evaluates the very same formulas on recorded implementation states.            *)

IsRet(o) == last.act = "Return" /\ last.op = o

\* a Prepare naming a target that got past snapshot creation: either AlreadyExists and the target is a committed
\* snapshot which, if made by this call, is remote with exactly one live backend mount on its directory (and the key
\* is gone); or an ordinary active snapshot `key' without remote label and without backend mount
PrepareTargetOutcome ==
    (IsRet("Prepare") /\ last.tgt # "" /\ last.created) =>
        \/ /\ last.err = "exists"
           /\ Exists(last.tgt) /\ meta[last.tgt].kind = "committed"
           /\ last.made => /\ meta[last.tgt].remote
                           /\ MCount(mounts, meta[last.tgt].id) = 1
                           /\ meta[last.tgt].id \in dirs
                           /\ ~Exists(last.k)
                           /\ \A i \in DOMAIN mounts : mounts[i].d = meta[last.tgt].id =>
                                  (mounts[i].ref = meta[last.tgt].ref /\ mounts[i].u = meta[last.tgt].u)
        \/ /\ last.err \in {"nil", "unavail"}
           /\ Exists(last.k) /\ meta[last.k].kind = "active" /\ ~meta[last.k].remote
           /\ MCount(mounts, meta[last.k].id) = 0
           /\ meta[last.k].id \in dirs
\* a Prepare/View rejected before the snapshot was created reports an error (never mounts)
RejectedCreateReportsError ==
    (last.act = "Return" /\ last.op \in {"Prepare", "View"} /\ ~last.created) => last.err \notin {"nil", "unavail"}

\* mounts are handed out only if no remote layer of the chain fails its check
CheckKeyOf == IF last.op = "Mounts" THEN last.k ELSE last.p
NoMountsIfRemoteUnavailable ==
    (last.act = "Return" /\ last.op \in {"Prepare", "View", "Mounts"} /\ last.err = "nil") =>
        (RemoteIdsIn(meta, CheckKeyOf) \cap last.bad = {} /\ RemoteIdsIn(meta, CheckKeyOf) \subseteq last.called)
UnavailableOnlyIfCheckFailed ==
    (last.act = "Return" /\ last.err = "unavail") => (last.bad \cap RemoteIdsIn(meta, CheckKeyOf) # {})

\* lower directories nearest parent first
ParentOfRet == IF last.op = "Mounts" THEN (IF Exists(last.k) THEN meta[last.k].parent ELSE "") ELSE last.p
LowerDirsNearestFirst ==
    (last.act = "Return" /\ last.op \in {"Prepare", "View", "Mounts"} /\ last.err = "nil") =>
        last.lower = ChainIds(meta, ParentOfRet)

\* a live backend mount is unmounted only after its snapshot was removed, or by Close
UnmountOnlyAfterRemovedOrClosing ==
    (last.act = "FsUnmount" /\ last.hit /\ last.ok) => (last.d \notin IdsOf(meta) \/ last.op = "Close")
\* ... and its directory still exists at that time and as long as the mount lives
UnmountBeforeRmdir ==
    /\ \A i \in DOMAIN mounts : mounts[i].d \in dirs
    /\ (last.act = "FsUnmount" /\ last.hit) => last.d \in dirs

\* cleanupSnapshotDirectory(d) done and d is not (any longer) a mountpoint => d is gone: deleting comes after unmounting
ReclaimedDirIsGone ==
    (last.act = "Hook" /\ last.name = "cleanupdir.done" /\ last.d > 0 /\ last.d \notin MDirs /\ last.d \notin stale)
        => last.d \notin dirs

\* after Cleanup the directories on disk are exactly those of live snapshots (a directory whose backend refused to
\* unmount is busy and stays)
AfterCleanupDirsAreLive ==
    (IsRet("Cleanup") /\ last.err = "nil") => (tmps = 0 /\ dirs \ MDirs \subseteq IdsOf(meta) /\ IdsOf(meta) \subseteq dirs)
\* same for a synchronous Remove (it reclaims everything unowned) - not required by C08, holds by design
AfterSyncRemoveDirsAreLive ==
    (IsRet("Remove") /\ last.err = "nil" /\ ~Async) => (tmps = 0 /\ dirs \ MDirs \subseteq IdsOf(meta))

\* every snapshot has its directory whenever the snapshotter is up and idle
\* (Close deletes the directories of remote snapshots; restore recreates them)
MetaHasDirs == (up = "up" /\ last.act \in {"Return", "Started"}) => IdsOf(meta) \subseteq dirs

\* snapshots disappear only through Remove, or by being committed under another name
AckedStayBody ==
    \A n \in Names : (Has(meta, n) /\ ~Has(meta', n)) =>
          \/ last'.act = "Init"          \* (monitor: a new recorded behaviour starts)
          \/ last'.act = "Return" /\ last'.op = "Remove" /\ last'.k = n /\ last'.err = "nil"
          \/ last'.act = "Hook" /\ last'.name = "remove.commit"
          \/ last'.act = "Hook" /\ last'.name = "commit.return" /\ meta[n].kind = "active"
               /\ \E c \in CNames : ~Has(meta, c) /\ Has(meta', c) /\ meta'[c].id = meta[n].id
AckedStayUntilRemoved == [][AckedStayBody]_vars
\* the remote label and the stored labels of a committed snapshot never change (except the user label by Update)
LabelsStableBody ==
    last'.act = "Init" \/          \* (monitor: a new recorded behaviour starts)
    \A n \in Names : (Has(meta, n) /\ Has(meta', n) /\ meta[n].kind = "committed") =>
          /\ meta'[n].id = meta[n].id /\ meta'[n].kind = "committed" /\ meta'[n].parent = meta[n].parent
          /\ meta'[n].remote = meta[n].remote /\ meta'[n].ref = meta[n].ref
          /\ (meta'[n].u = meta[n].u \/ (last'.act = "Return" /\ last'.op = "Update"))
LabelsStable == [][LabelsStableBody]_vars

----------------------------------------------------------------------------
(* PROPERTY C09                                                                                           *)

RemoteCommittedIds == {meta[n].id : n \in {x \in Names : Exists(x) /\ meta[x].remote /\ meta[x].kind = "committed"}}
AnyRemoteIds == {meta[n].id : n \in {x \in Names : Exists(x) /\ meta[x].remote}}

\* the start fails only when the backend refused a restore mount (imp: failures chosen by the environment, not caused
\* by the snapshotter, e.g. a missing mountpoint) and invalid mounts are not allowed; it succeeds otherwise
RestartSucceedsOrPrescribed ==
    /\ last.act = "StartFailed" => (~last.ai /\ ~last.nr /\ last.imp # {})
    /\ (last.act = "Started" /\ ~last.nr) => (last.imp = {} \/ last.ai)
\* after a restoring start: exactly the committed remote snapshots are mounted (minus the tolerated refusals), once
\* each, on an existing directory, and nothing else is mounted below the root
RemountedExactly ==
    (last.act = "Started" /\ ~last.nr) =>
        /\ MDirs = RemoteCommittedIds \ last.imp
        /\ \A d \in MDirs : MCount(mounts, d) = 1 /\ d \in dirs
        /\ stale = {}
        /\ last.imp \subseteq AnyRemoteIds
\* ... with the labels stored when they were created (LabelsStable: those never changed)
RestoredWithStoredLabels ==
    (last.act = "FsMount" /\ last.op = "Restart") =>
        \E n \in Names : /\ Exists(n) /\ meta[n].id = last.d /\ meta[n].remote
                         /\ last.ref = meta[n].ref /\ last.u = meta[n].u
\* a start without restore (surviving backend) leaves the backend's mounts alone
NoRestoreKeepsBody ==
    (last'.act \in {"Restart", "Started"} /\ last'.nr) => (mounts' = mounts /\ stale' = stale /\ dirs' = dirs)
NoRestoreKeepsMounts == [][NoRestoreKeepsBody]_vars
\* crash and restart never touch the metadata, nor the directories of ordinary snapshots
RestartPreservesBody ==
    (last'.act \in {"Crash", "Restart", "Started", "StartFailed"} \/ (last'.act = "FsMount" /\ last'.op = "Restart")
        \/ (last'.act = "Hook" /\ last'.name \in {"restore.unmounted", "restore.mkdir"}))
          => /\ meta' = meta /\ tmps' = tmps
             /\ DirIds \subseteq DirIds' /\ DirIds' \ DirIds \subseteq AnyRemoteIds
             /\ \A d \in dirs : (d > 0 /\ d \notin AnyRemoteIds) => d \in dirs'    \* ordinary snapshots untouched
RestartPreservesSnapshots == [][RestartPreservesBody]_vars
\* acknowledged snapshots stay removable: Remove of an existing snapshot without children succeeds
\* (evaluated where the pre-state is known: the spec and the monitor record it in last.had / last.leaf)
RemoveOfLeafSucceeds ==
    IsRet("Remove") => ((last.had /\ last.leaf) <=> last.err = "nil")
\* one cleanup pass removes everything half-made, whatever it returns.  NOT TRUE of the design as coded (see Virgin:
\* a new-* directory left by a crash of the very first create survives Cleanup until some snapshot is committed), so the
\* exhaustive configs check AfterCleanupDirsAreLive instead and this one is evaluated by the monitor (C09 finding)
OneCleanupRemovesHalfMade == IsRet("Cleanup") => (tmps = 0 /\ dirs \ MDirs \subseteq IdsOf(meta))

(* The formulas above read the observation `last', which the exhaustive configs hide from the VIEW (states are     *)
(* identified by `core').  TLC evaluates invariants only on states that are new under the VIEW, so for model checking *)
(* each formula F is checked as the action property [][F']_vars, which TLC evaluates on EVERY transition.            *)
A_PrepareTargetOutcome == [][PrepareTargetOutcome']_vars
A_RejectedCreateReportsError == [][RejectedCreateReportsError']_vars
A_NoMountsIfRemoteUnavailable == [][NoMountsIfRemoteUnavailable']_vars
A_UnavailableOnlyIfCheckFailed == [][UnavailableOnlyIfCheckFailed']_vars
A_LowerDirsNearestFirst == [][LowerDirsNearestFirst']_vars
A_UnmountOnlyAfterRemovedOrClosing == [][UnmountOnlyAfterRemovedOrClosing']_vars
A_UnmountBeforeRmdir == [][UnmountBeforeRmdir']_vars
A_AfterCleanupDirsAreLive == [][AfterCleanupDirsAreLive']_vars
A_AfterSyncRemoveDirsAreLive == [][AfterSyncRemoveDirsAreLive']_vars
A_MetaHasDirs == [][MetaHasDirs']_vars
A_RestartSucceedsOrPrescribed == [][RestartSucceedsOrPrescribed']_vars
A_RemountedExactly == [][RemountedExactly']_vars
A_RestoredWithStoredLabels == [][RestoredWithStoredLabels']_vars
A_RemoveOfLeafSucceeds == [][RemoveOfLeafSucceeds']_vars
A_ReclaimedDirIsGone == [][ReclaimedDirIsGone']_vars

(* internal consistency of the design (not part of the properties) *)
TypeOK ==
    /\ seq \in 0..MaxId /\ tmps \in 0..(MaxOps + 1) /\ dirs \subseteq ((-MaxId)..MaxId) \ {0}
    /\ \A d \in dirs : -d \notin dirs
    /\ (up = "up" /\ op.name # "Restart") => \A d \in dirs : d > 0       \* half-made directories exist only while down
    /\ up \in {"up", "down"}
    /\ \A n \in Names : meta[n].id \in 0..seq
IdsUnique == \A a, b \in Names : (Exists(a) /\ Exists(b) /\ a # b) => meta[a].id # meta[b].id
MountsSorted == \A i \in 1..(Len(mounts) - 1) : mounts[i].d <= mounts[i + 1].d
ParentsCommitted == \A n \in Names : (Exists(n) /\ meta[n].parent # "") =>
                        (Exists(meta[n].parent) /\ meta[meta[n].parent].kind = "committed")
=============================================================================

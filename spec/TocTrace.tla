------------------------------ MODULE TocTrace ------------------------------
(* Conformance of one store's recorded observation with the reference       *)
(* semantics of Toc.tla (implementation -> specification).                  *)
(* trace.ndjson: one line per (case, store):                                 *)
(*   [case, store, ws, ents (the logical TOC TLC generated), obs]            *)
(* obs = what the walk of the complete metadata.Reader API showed:           *)
(*   open "ok"/"err", digest label, clone, close,                            *)
(*   nodes: path -> [ty perm sb size uid gid nlink link maj min mtime xa     *)
(*                   same kids fty gc of off ck rd all prd pcb err]          *)
(* The lines are independent; every line is compared aspect by aspect and a *)
(* line that differs is reported as "VMISS <line> <aspects>" (the run never  *)
(* stops at the first one: the check needs all of them to tell which store   *)
(* left the reference when the monitor finds the stores disagreeing).        *)
EXTENDS Toc, Json, TLCExt

VARIABLE l

TraceLog == ndJsonDeserialize("trace.ndjson")

ToSet(s) == {s[k] : k \in DOMAIN s}

RegIdx(L, p) == Ident(L, p)         \* entry index of the regular file a path names

PcbRef(L, i) ==
    {[same |-> Same(L, L[x.i].p), co |-> x.c.co, cs |-> x.c.cs,
      dg |-> DgLabel(L, x.i, x.c, Len(ChunksOf(L, x.i))),
      data |-> [j \in 1..x.c.cs |-> ByteOf(x.i, x.c.co + j - 1)]] : x \in PreRead(L, i)}
PcbObs(n) == {[same |-> ToSet(n.pcb[k].same), co |-> n.pcb[k].co, cs |-> n.pcb[k].cs,
               dg |-> n.pcb[k].dg, data |-> n.pcb[k].data] : k \in DOMAIN n.pcb}

NodeAttrs(n) == [ty |-> n.ty, perm |-> n.perm, sb |-> n.sb, size |-> n.size, uid |-> n.uid, gid |-> n.gid,
             link |-> n.link, maj |-> n.maj, min |-> n.min, mt |-> n.mt, xa |-> n.xa]

Common(L, o) == DOMAIN o.nodes \cap PathsOf(L)
NoErr(o) == \A p \in DOMAIN o.nodes : o.nodes[p].err = ""

A_open(L, o) == o.open = (IF Accept(L) THEN "ok" ELSE "err")
A_digest(L, w, o) == o.digest = DigestLabel(L, w)
A_tree(L, o) ==
    /\ DOMAIN o.nodes = PathsOf(L)
    /\ NoErr(o)
    /\ \A p \in Common(L, o) :
        /\ ToSet(o.nodes[p].kids) = KidsOf(L, p)
        /\ Len(o.nodes[p].kids) = Cardinality(KidsOf(L, p))
        /\ ToSet(o.nodes[p].same) = Same(L, p)
        /\ o.nodes[p].gc = "same"
        /\ o.nodes[p].fty = TypeOf(L, p)
A_attr(L, o) == \A p \in Common(L, o) : o.nodes[p].err = "" => NodeAttrs(o.nodes[p]) = AttrOf(L, p)
A_nlink(L, o) == \A p \in Common(L, o) : o.nodes[p].err = "" => o.nodes[p].nlink = NLink(L, p)
IsReg(L, p) == TypeOf(L, p) = "reg"
A_chunks(L, o) == \A p \in Common(L, o) : o.nodes[p].err = "" =>
    IF IsReg(L, p) THEN o.nodes[p].of = "ok" /\ o.nodes[p].ck = ChunkTable(L, RegIdx(L, p))
    ELSE o.nodes[p].of = "err"
A_bytes(L, o) == \A p \in Common(L, o) : (o.nodes[p].err = "" /\ IsReg(L, p)) =>
    /\ o.nodes[p].rd = ReadTable(L, RegIdx(L, p))
    /\ o.nodes[p].all = BytesOf(L, RegIdx(L, p))
    /\ o.nodes[p].prd = ReadTable(L, RegIdx(L, p))
A_pre(L, o) == \A p \in Common(L, o) : (o.nodes[p].err = "" /\ IsReg(L, p)) =>
    PcbObs(o.nodes[p]) = PcbRef(L, RegIdx(L, p))
A_off(L, o) == \A p \in Common(L, o) : o.nodes[p].err = "" =>
    o.nodes[p].off = (IF IsReg(L, p) THEN OffsetOf(L, RegIdx(L, p)) ELSE 0)
A_clone(L, o) == o.clone = "same" /\ o.close = "ok"

Miss(L, w, o) ==
    IF ~A_open(L, o) THEN "open"
    ELSE IF o.open # "ok" THEN ""
    ELSE (IF A_digest(L, w, o) THEN "" ELSE "digest,") \o (IF A_tree(L, o) THEN "" ELSE "tree,")
         \o (IF A_attr(L, o) THEN "" ELSE "attr,") \o (IF A_nlink(L, o) THEN "" ELSE "nlink,")
         \o (IF A_chunks(L, o) THEN "" ELSE "chunks,") \o (IF A_bytes(L, o) THEN "" ELSE "bytes,")
         \o (IF A_pre(L, o) THEN "" ELSE "pre,") \o (IF A_off(L, o) THEN "" ELSE "off,")
         \o (IF A_clone(L, o) THEN "" ELSE "clone,")

TraceInit == l = 1 /\ toc = <<>> /\ ws = 0
TraceNext ==
    /\ l <= Len(TraceLog)
    /\ LET ev == TraceLog[l]
           m == IF "early" \in DOMAIN ev                 \* clone-early line: [store, n, rep, early]
                THEN (IF ev.early = EarlyCloneRef(ev.n) THEN "" ELSE "early-clone,")
                ELSE Miss(ev.ents, ev.ws, ev.obs)
       IN IF m = "" THEN TRUE ELSE PrintT("VMISS " \o ToString(l) \o " " \o m)
    /\ l' = l + 1
    /\ UNCHANGED <<toc, ws>>
TraceSpec == TraceInit /\ [][TraceNext]_<<l, toc, ws>>
Done == l = Len(TraceLog) + 1 => PrintT("VDONE " \o ToString(Len(TraceLog)))
=============================================================================

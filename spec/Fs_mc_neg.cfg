\* negative controls: one caller, three calls; each guard constant switched off must break its formula
CONSTANTS
    MPs = {"m1", "m2"}
    Blobs = {"b1"}
    Labs = {"ok", "bad", "skip"}
    Ops = {"Mount", "Check", "Unmount"}
    MaxCalls = 3
    MaxConc = 1
    MaxObj = 2
    SameMp = FALSE
    OneMount = FALSE
    AllowNoVerif = TRUE
    DisableVerif = FALSE
    NoPrefetch = FALSE
    NoBgFetch = TRUE
    PreRes = FALSE
    Expiry = FALSE
    ReleaseOnFail = TRUE
    EraseOnFail = TRUE
    VerifyFirst = TRUE
    SkipNeedsAllow = TRUE
    UnmountCloses = TRUE
    CheckOwnKey = TRUE
    DoneAlways = TRUE
    BgRespectsPrio = TRUE
SPECIFICATION Spec
VIEW core
INVARIANTS TypeOK MountedIffInMap MountedLayerAlive NoUnverifiedMountUnlessAllowed NoUnverifiedInMap DoDoneBalanced BackgroundFetchOnlyAfterMountReturns
PROPERTIES FailedMountLeavesNothing UnmountReleasesLayer CheckReachesOwnLayer BackgroundFetchStartsIdle
CHECK_DEADLOCK FALSE

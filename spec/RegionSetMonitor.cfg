CONSTANTS
    MaxPos = 1000000
    Variant = "code"
SPECIFICATION MonSpec
INVARIANTS RegionSetIsUnion MonTotalIsDistinctBytes MonSorted
PROPERTIES TotalMonotone
CHECK_DEADLOCK FALSE

------------------------------- MODULE Writer -------------------------------
(* C03 - built blobs unpack like the input tar and index themselves        *)
(* consistently.                                                           *)
(*                                                                         *)
(* Transcription of the writer side of estargz:                            *)
(*   Writer.appendTar   per entry: condOpenGz, tar header into the open    *)
(*                      stream; per chunk: flushGz, decision               *)
(*                      needsOpenGz \/ cw.n - prevOffset >= MinChunkSize   *)
(*                      => closeGz, Offset = cw.n (a stream start),        *)
(*                      else Offset = prevOffset, InnerOffset =            *)
(*                      uncompressed bytes since that stream start;        *)
(*                      ChunkSize set only when a full chunk remains;      *)
(*                      block padding after the last chunk (tw.Flush)      *)
(*   divideEntries, Build's sub-writers, closeWithCombine (offsets of      *)
(*                      non-empty reg / chunk entries rebased by the size  *)
(*                      of the preceding sub-blobs)                        *)
(*   WriteTOCAndFooter  what goes after the payload per scheme             *)
(*                                                                         *)
(* The run is a pure function (WriterRun) of the ordered entries, the      *)
(* options, the per-chunk min-chunk decision and the compressed size of    *)
(* every stream. In the exhaustive configs TLC enumerates inputs, options  *)
(* and decisions and compressed sizes are a fixed positive function (the   *)
(* formulas only compare offsets for equality, D1); in trace validation    *)
(* the decisions and the compressed sizes are BOUND FROM THE OBSERVATION   *)
(* (member boundaries found by the independent reader).                    *)
(*                                                                         *)
(* Deviations / limits:                                                    *)
(*  D1 compressed sizes are parameters, never computed.                    *)
(*  D2 tar header lengths are parameters too (hdr[i], 512 in the model,    *)
(*     bound from the observed tar in trace validation): PAX/GNU long      *)
(*     headers are not modelled, only placed.                              *)
(*  D3 the order of the entries handed to the writer is Sort.tla's         *)
(*     business (C14); here Build is used without prioritized files, so    *)
(*     the expected entries are: no-prefetch landmark, then the input with *)
(*     the last duplicate of a name winning. Names are already clean.      *)
(*  D4 sub-writers are modelled one after the other: they share no state   *)
(*     (the driver runs them under -race).                                 *)
EXTENDS Integers, Sequences, FiniteSets, TLC

CONSTANTS
    Sizes,          \* file sizes TLC may use
    MaxEntries,
    ChunkSz,        \* chunk size
    Modes,          \* subset of {"build", "writer", "lossless"}
    WorkerSet,      \* worker counts for "build"
    MinOnSet,       \* subset of BOOLEAN: min-chunk-size given?
    \* the code under its guards; FALSE = negative control
    OffsetAfterClose,   \* ent.Offset = w.cw.n is read AFTER closeGz (a stream start), not after the flush only
    InnerFromStreamStart,\* InnerOffset counts from prevOffsetUncompressed (set at the stream start)
    RebaseChunks,       \* closeWithCombine rebases "chunk" entries as well as non-empty "reg" entries
    KeepChunkSize,      \* ent.ChunkSize = chunkSize when a full chunk remains
    DivideKeepsAll,     \* divideEntries puts every entry into exactly one part
    LandmarkOwnStream,  \* needsOpenGzEntries (C14; kept so that both modules agree on the decision)
    KeepLastDup,        \* importTar: of several entries with one name the LAST is kept (whatever its type)
    ReservedByFullName, \* appendTar: the reserved TOC name is compared with the cleaned FULL path, not the base name
    RefuseUnknownType   \* appendTar: `default: return fmt.Errorf("unsupported input tar entry %q")` - e.g. a PAX global header

NoPLm == ".no.prefetch.landmark"
PLm   == ".prefetch.landmark"
TOCName == "stargz.index.json"
Ent(name, type, link, size, c, meta) == [name |-> name, type |-> type, link |-> link, size |-> size, c |-> c, meta |-> meta]
    \* c: content id; meta: the tar header metadata that must survive, [mode, uid, gid, mtime] (xattrs are not in the universe)
Meta(m, u, g, t) == [mode |-> m, uid |-> u, gid |-> g, mtime |-> t]   \* mtime: unix seconds as a decimal STRING (TLC integers are 32 bit)
MetaA == Meta(493, 0, 0, "0")                       \* 0755 root, no mtime
MetaB == Meta(448, 1000, 1000, "1700000000")        \* 0700 uid/gid 1000 with an mtime: what a repeated entry carries
LmMeta == Meta(0, 0, 0, "0")                        \* the landmark header sortEntries makes
NoMeta == Meta(0, 0, 0, "0")
\* modification times around the places where formatModtime / the tar formats change behaviour (mtime 0 = the epoch = "none":
\* a zero time.Time is written to a tar as 0, the TOC leaves modtime empty for both)
MetaC == Meta(420, 0, 0, "-14182940")           \* 1969-07-20T20:17:40Z, before the epoch
MetaD == Meta(493, 0, 0, "-2208988800")         \* 1900-01-01
MetaE == Meta(420, 0, 0, "32503680000")            \* year 3000 (beyond what a USTAR header holds)
TimedMetas == {MetaC, MetaD, MetaE}
LmCid == "sha256:dc0e9c3658a1a3ed1ec94274d8b19925c93e1abb7ddba294923ad9bde30f8cb8"   \* SHA-256 of the landmark contents, the one byte 0x0f
Min(a, b) == IF a < b THEN a ELSE b
Range(s) == {s[i] : i \in 1..Len(s)}
RECURSIVE ConcatAll(_)
ConcatAll(ss) == IF ss = <<>> THEN <<>> ELSE Head(ss) \o ConcatAll(Tail(ss))
RECURSIVE SumSeq(_)
SumSeq(s) == IF s = <<>> THEN 0 ELSE Head(s) + SumSeq(Tail(s))

VARIABLES
    phase,   \* "in" -> "done"
    input,   \* the input tar: sequence of entries
    opt,     \* [mode, minOn, workers, chunk]
    lay      \* result: [order, members, toc, ...] in the shape the driver records

vars == <<phase, input, opt, lay>>

-----------------------------------------------------------------------------
(* what must come out (D3) - declarative: Build folds duplicates (last of a name wins, with ITS metadata and     *)
(* content) and drops landmarks of the input; an entry named exactly stargz.index.json in the root is reserved  *)
(* and dropped (lossless: refused, not enumerated); files that merely have such a BASE name in a sub-directory  *)
(* are ordinary entries.                                                                                        *)
EffOf(t) ==
    LET keep(i) == t[i].name \notin {PLm, NoPLm} /\ \A j \in (i+1)..Len(t) : t[j].name # t[i].name
        idx == SelectSeq([i \in 1..Len(t) |-> i], keep)
    IN  [k \in 1..Len(idx) |-> t[idx[k]]]
LmEnt == Ent(NoPLm, "reg", "", 1, LmCid, LmMeta)
\* a PAX global extended header ("xglobal", what `git archive` writes first) is not an entry of the file system: the lossy
\* modes need not keep it, lossless must (or refuse the input)
Expected(mode, t) ==
    IF mode = "build" THEN <<LmEnt>> \o SelectSeq(EffOf(t), LAMBDA e : e.name # TOCName /\ e.type # "xglobal")
    ELSE IF mode = "writer" THEN SelectSeq(t, LAMBDA e : e.name # TOCName /\ e.type # "xglobal")
    ELSE SelectSeq(t, LAMBDA e : e.name # TOCName)

(* what the code writes - transcription of importTar's replace-if-present and appendTar's reserved-name test *)
Base(n) == IF n \in {"sub/stargz.index.json", TOCName} THEN TOCName
           ELSE IF n = "sub/.prefetch.landmark" THEN PLm ELSE IF n = "sub/.no.prefetch.landmark" THEN NoPLm ELSE n
RECURSIVE ImportFrom(_, _)
ImportFrom(t, acc) ==
    IF t = <<>> THEN acc
    ELSE LET e == Head(t)
             had == \E i \in 1..Len(acc) : acc[i].name = e.name
         IN  IF e.name \in {PLm, NoPLm} THEN ImportFrom(Tail(t), acc)
             ELSE IF had /\ ~KeepLastDup /\ e.type = "dir" THEN ImportFrom(Tail(t), acc)
             ELSE ImportFrom(Tail(t), Append(SelectSeq(acc, LAMBDA x : x.name # e.name), e))
Reserved(e) == \/ IF ReservedByFullName THEN e.name = TOCName ELSE Base(e.name) = TOCName
               \/ (~RefuseUnknownType /\ e.type = "xglobal")       \* negative control: skipped (`continue`) instead of refused
\* Build: sortEntries and divideEntries still see a reserved entry (it counts for the sizes of the parts); appendTar skips it
Sorted(mode, t) == IF mode = "build" THEN <<LmEnt>> \o ImportFrom(t, <<>>) ELSE t
Written(mode, t) == SelectSeq(Sorted(mode, t), LAMBDA e : ~Reserved(e))
\* the type switch of appendTar knows dir, reg, (sym)link, char, block, fifo; anything else fails the whole run
Refuses(mode, t) == RefuseUnknownType /\ \E i \in 1..Len(Sorted(mode, t)) : Sorted(mode, t)[i].type = "xglobal"   \* after importTar's folding of names (Build)
RefusedLay == [refused |-> TRUE, order |-> <<>>, members |-> <<>>, toc |-> <<>>, expected |-> <<>>,
               diffid |-> "", shaAll |-> "", tocdigest |-> "", shaToc |-> "", shaPayload |-> "", shaInput |-> ""]

(* divideEntries *)
RECURSIVE SumSizes(_)
SumSizes(o) == IF o = <<>> THEN 0 ELSE Head(o).size + SumSizes(Tail(o))
RECURSIVE Divide(_, _, _, _, _, _)
Divide(o, i, offset, nextEnd, unit, set) ==
    IF i > Len(o) THEN set
    ELSE LET set1 == IF DivideKeepsAll \/ i # 2 THEN [set EXCEPT ![Len(set)] = Append(@, i)] ELSE set
             off1 == offset + o[i].size
         IN  IF off1 > nextEnd THEN Divide(o, i + 1, off1, nextEnd + unit, unit, Append(set1, <<>>))
             ELSE Divide(o, i + 1, off1, nextEnd, unit, set1)
DivideEntries(o, parts) == LET unit == SumSizes(o) \div parts IN Divide(o, 1, 0, unit, unit, << <<>> >>)

(* one writer. st = [mem: closed members (each a sequence of items), cur: items of the open member,       *)
(* open: BOOLEAN, rows: TOC rows with LOCAL member ordinals]. item = [k, i, o, n]: k "h" header,          *)
(* "d" data, "p" padding; n = uncompressed length. row = [i, type, size, o, cs, m, inner, pre]            *)
(* m = ordinal of the member (within this writer) whose start is recorded as Offset; pre = 1 if the       *)
(* negative control OffsetAfterClose is off (offset read before the old stream was closed).              *)
Pad(n) == (512 - (n % 512)) % 512
ULen(items) == SumSeq([j \in 1..Len(items) |-> items[j].n])
NeedsOpenGz(o, i, first) == LandmarkOwnStream /\ first /\ o[i].name \in {PLm, NoPLm}

RECURSIVE Chunks(_, _, _, _, _, _, _)
\* the chunk loop of one regular file i of size > 0; sinceStart = uncompressed bytes in the open member
\* before this file's data that count for InnerOffset
Chunks(o, i, written, st, minOn, enough, csz) ==
    LET size == o[i].size IN
    IF written >= size
    THEN [st EXCEPT !.cur = IF Pad(size) > 0 THEN Append(@, [k |-> "p", i |-> i, o |-> 0, n |-> Pad(size)]) ELSE @]
    ELSE LET remain == size - written
             n  == Min(csz, remain)
             cs == IF remain < csz \/ ~KeepChunkSize THEN 0 ELSE csz
             new == NeedsOpenGz(o, i, written = 0) \/ ~minOn \/ (<<i, written>> \in enough)
             st1 == IF new THEN [st EXCEPT !.mem = Append(@, st.cur), !.cur = <<>>, !.base = 0] ELSE st
             row == [i |-> i, type |-> IF written = 0 THEN "reg" ELSE "chunk", size |-> IF written = 0 THEN size ELSE 0,
                     o |-> written, cs |-> cs,
                     m |-> Len(st1.mem) + 1,
                     inner |-> IF new THEN 0 ELSE (IF InnerFromStreamStart THEN ULen(st1.cur) ELSE ULen(st1.cur) + st1.total),
                     pre |-> IF new /\ ~OffsetAfterClose THEN 1 ELSE 0]
             st2 == [st1 EXCEPT !.cur = Append(@, [k |-> "d", i |-> i, o |-> written, n |-> n]),
                                !.rows = Append(@, row),
                                !.total = @ + (IF new THEN ULen(st.cur) ELSE 0)]
         IN  Chunks(o, i, written + n, st2, minOn, enough, csz)

RECURSIVE Entries(_, _, _, _, _, _, _)
Entries(o, idxs, hdr, st, minOn, enough, csz) ==
    IF idxs = <<>> THEN st
    ELSE LET i == Head(idxs)
             st1 == [st EXCEPT !.cur = Append(@, [k |-> "h", i |-> i, o |-> 0, n |-> hdr[i]]), !.open = TRUE]
             st2 == IF o[i].type = "reg" /\ o[i].size > 0
                    THEN Chunks(o, i, 0, st1, minOn, enough, csz)
                    ELSE [st1 EXCEPT !.rows = Append(@, [i |-> i, type |-> o[i].type, size |-> 0, o |-> 0, cs |-> 0,
                                                         m |-> 0, inner |-> 0, pre |-> 0])]
         IN  Entries(o, Tail(idxs), hdr, st2, minOn, enough, csz)

St0 == [mem |-> <<>>, cur |-> <<>>, open |-> FALSE, rows |-> <<>>, base |-> 0, total |-> 0]
\* closeGz at the end: the open member (if any) is closed
\* tail: bytes after the last entry (end-of-archive blocks) that AppendTarLossLess copies; 0 otherwise (discarded)
PartRun(o, idxs, hdr, minOn, enough, csz, tail) ==
    LET st == Entries(o, idxs, hdr, St0, minOn, enough, csz)
        cur2 == IF tail > 0 THEN Append(st.cur, [k |-> "t", i |-> 0, o |-> 0, n |-> tail]) ELSE st.cur
    IN  [members |-> IF st.open \/ tail > 0 THEN Append(st.mem, cur2) ELSE st.mem, rows |-> st.rows]
    \* note: st.mem[1] can be an EMPTY item list only if the very first thing is a new-stream chunk, which
    \* cannot happen: the entry's header is written first. A member always holds at least one item.

(* all writers + closeWithCombine. csize[g] = compressed size of the g-th member of the whole blob (D1).   *)
\* full = what sortEntries hands to divideEntries (still with a reserved entry); o = full without reserved entries =
\* what is written; all indices below are indices into o
WriterRun(full, hdr, op, enough, csize, tail) ==
    LET o == SelectSeq(full, LAMBDA e : ~Reserved(e))
        rank(f) == Cardinality({g \in 1..f : ~Reserved(full[g])})
        conv(part) == LET kept == SelectSeq(part, LAMBDA f : ~Reserved(full[f])) IN [j \in 1..Len(kept) |-> rank(kept[j])]
        fparts == IF op.mode = "build" /\ ~op.minOn THEN DivideEntries(full, op.workers) ELSE <<[i \in 1..Len(full) |-> i]>>
        parts == [p \in 1..Len(fparts) |-> conv(fparts[p])] \o <<>>
        runs  == [p \in 1..Len(parts) |-> PartRun(o, parts[p], hdr, op.minOn, enough, op.chunk, IF op.mode = "lossless" THEN tail ELSE 0)] \o <<>>   \* \o <<>>: make TLC evaluate the sequence once
        nmem(p) == Len(runs[p].members)
        first(p) == SumSeq([q \in 1..(p - 1) |-> nmem(q)])         \* global ordinal - 1 of the part's first member
        members == ConcatAll([p \in 1..Len(parts) |-> runs[p].members])
        start(g) == SumSeq([h \in 1..(g - 1) |-> csize[h]])         \* blob offset of global member g
        partBase(p) == start(first(p) + 1)                          \* = sum of w.cw.n of the preceding writers
        rowOff(p, r) ==
            IF r.m = 0 THEN 0
            ELSE LET local == start(first(p) + r.m) - partBase(p) - r.pre
                     rebase == (r.type = "reg" /\ r.size > 0) \/ (r.type = "chunk" /\ RebaseChunks)
                 IN  local + (IF rebase THEN partBase(p) ELSE 0)
        toc == ConcatAll([p \in 1..Len(parts) |->
                  [j \in 1..Len(runs[p].rows) |-> LET r == runs[p].rows[j] IN
                      [i |-> r.i, type |-> r.type, size |-> r.size, o |-> r.o, cs |-> r.cs, off |-> rowOff(p, r), inner |-> r.inner]]])
    IN  [members |-> [g \in 1..Len(members) |-> [s |-> start(g), e |-> start(g) + csize[g], items |-> members[g]]] \o <<>>,
         toc |-> toc, payloadEnd |-> start(Len(members) + 1)]

-----------------------------------------------------------------------------
(* exhaustive enumeration *)
Names == <<"f1", "f2", "f3", "f4", "f5">>
Init == phase = "in" /\ input = <<>> /\ opt = [mode |-> "", minOn |-> FALSE, workers |-> 0, chunk |-> 0] /\ lay = [x |-> 0]

AddFile(sz, dup) ==
    /\ phase = "in" /\ Len(input) < MaxEntries
    /\ input' = Append(input, IF dup /\ Len(input) > 0 THEN Ent(input[1].name, "reg", "", sz, "c", MetaB)
                                ELSE Ent(Names[Len(input) + 1], "reg", "", sz, "c", MetaA))
    /\ UNCHANGED <<phase, opt, lay>>
\* a directory; dup: the name of the first entry again, with other mode/owner/mtime (MetaB)
AddDir(dup) ==
    /\ phase = "in" /\ Len(input) < MaxEntries
    /\ input' = Append(input, IF dup /\ Len(input) > 0 THEN Ent(input[1].name, "dir", "", 0, "c", MetaB)
                                ELSE Ent(Names[Len(input) + 1], "dir", "", 0, "c", MetaA))
    /\ UNCHANGED <<phase, opt, lay>>
\* files whose name is, or merely ends in, a reserved name
\* a file (directory for the year 1900) with an unusual modification time
AddTimed(m) ==
    /\ phase = "in" /\ Len(input) < MaxEntries
    /\ input' = Append(input, IF m = MetaD THEN Ent(Names[Len(input) + 1], "dir", "", 0, "c", m)
                                ELSE Ent(Names[Len(input) + 1], "reg", "", 1, "c", m))
    /\ UNCHANGED <<phase, opt, lay>>
\* a PAX global extended header as the first thing in the tar
AddGlobal ==
    /\ phase = "in" /\ Len(input) = 0 /\ MaxEntries > 0
    /\ input' = <<Ent("pax_global_header", "xglobal", "", 0, "c", NoMeta)>>
    /\ UNCHANGED <<phase, opt, lay>>
Specials == {"sub/stargz.index.json", "sub/.prefetch.landmark", "sub/.no.prefetch.landmark", TOCName}
AddSpecial(nm) ==
    /\ phase = "in" /\ Len(input) < MaxEntries
    /\ \A i \in 1..Len(input) : input[i].name # nm
    /\ input' = Append(input, Ent(nm, "reg", "", 3, "c", MetaA))
    /\ UNCHANGED <<phase, opt, lay>>
\* which (mode, workers) go with an input
ModeOK(m, w) ==
    /\ (m # "build") => (w = 1 /\ \A a, b \in 1..Len(input) : a # b => input[a].name # input[b].name)
        \* plain Writer/AppendTar does not fold duplicates (both entries are written, a tar reader lets the last win);
        \* the formulas identify a file by its name, so duplicate names are enumerated for Build only
    /\ (m = "lossless") => \A a \in 1..Len(input) : input[a].name # TOCName     \* refused by design

\* model layout in the monitor's vocabulary: what lies at (off, inner) for n bytes
HeldAt(members, off, inner, n) ==
    LET gs == {g \in 1..Len(members) : members[g].s = off} IN
    IF gs = {} THEN <<"no stream starts here">>
    ELSE LET its == members[CHOOSE g \in gs : TRUE].items
             pos(j) == SumSeq([h \in 1..(j - 1) |-> its[h].n])
             js == {j \in 1..Len(its) : its[j].k = "d" /\ pos(j) = inner /\ its[j].n = n}
         IN  IF js = {} THEN <<"no such data here">> ELSE LET j == CHOOSE j \in js : TRUE IN <<its[j].i, its[j].o, its[j].n>>

Run(op, enough) ==
    /\ phase = "in" /\ phase' = "done" /\ opt' = op
    /\ IF Refuses(op.mode, input) THEN lay' = RefusedLay ELSE
       LET o == Written(op.mode, input)
           hdr == [i \in 1..Len(o) |-> 512]
           csz == <<2, 3, 4, 2, 3, 4, 2, 3, 4, 2, 3, 4, 2, 3, 4, 2, 3, 4, 2, 3, 4, 2, 3, 4, 2, 3, 4, 2, 3, 4, 2, 3, 4, 2, 3, 4, 2, 3, 4, 2>>
           r == WriterRun(Sorted(op.mode, input), hdr, op, enough, csz, 1024)
           n(t) == IF t.cs # 0 THEN t.cs ELSE o[t.i].size - t.o
           hs == ConcatAll([g \in 1..Len(r.members) |-> SelectSeq(r.members[g].items, LAMBDA it : it.k = "h")])
       IN lay' = [refused |-> FALSE, order |-> [j \in 1..Len(hs) |-> o[hs[j].i]],
                  members |-> [g \in 1..Len(r.members) |-> [s |-> r.members[g].s, e |-> r.members[g].e]],
                  toc |-> [j \in 1..Len(r.toc) |-> LET t == r.toc[j] IN
                             [name |-> o[t.i].name, type |-> t.type, size |-> t.size,
                              link |-> IF t.type = "chunk" THEN "" ELSE o[t.i].link, meta |-> IF t.type = "chunk" THEN NoMeta ELSE o[t.i].meta, o |-> t.o, cs |-> t.cs, off |-> t.off, inner |-> t.inner,
                              data |-> (t.type = "chunk" \/ (t.type = "reg" /\ t.size > 0)),
                              at  |-> IF t.type = "chunk" \/ (t.type = "reg" /\ t.size > 0) THEN HeldAt(r.members, t.off, t.inner, n(t)) ELSE <<>>,
                              src |-> IF t.type = "chunk" \/ (t.type = "reg" /\ t.size > 0) THEN <<t.i, t.o, n(t)>> ELSE <<>>,
                              cd  |-> IF t.type = "chunk" \/ (t.type = "reg" /\ t.size > 0) THEN <<t.i, t.o, n(t)>> ELSE <<>>,
                              fd  |-> <<t.i>>, fsrc |-> <<t.i>>]],
                  expected |-> Expected(op.mode, input),
                  diffid |-> "x", shaAll |-> "x", tocdigest |-> "y", shaToc |-> "y", \* lossless: the payload is the input, byte for byte - in the model: name for name
                  shaPayload |-> IF op.mode = "lossless" THEN [j \in 1..Len(o) |-> o[j].name] ELSE <<>>,
                  shaInput |-> IF op.mode = "lossless" THEN [j \in 1..Len(input) |-> input[j].name] ELSE <<>>]
    /\ UNCHANGED input

AddAny ==
    \/ \E sz \in Sizes, dup \in BOOLEAN : AddFile(sz, dup)
    \/ \E dup \in BOOLEAN : AddDir(dup)
    \/ \E nm \in Specials : AddSpecial(nm)
    \/ \E m \in TimedMetas : AddTimed(m)
    \/ AddGlobal
Next ==
    \/ AddAny
    \/ \E m \in Modes, mo \in MinOnSet, w \in WorkerSet :
         LET op == [mode |-> m, minOn |-> mo, workers |-> w, chunk |-> ChunkSz]
             o == Written(m, input)
             chunks == UNION {{<<i, k * ChunkSz>> : k \in 0..((o[i].size - 1) \div ChunkSz)} : i \in {i \in 1..Len(o) : o[i].type = "reg" /\ o[i].size > 0}}
         IN  /\ ModeOK(m, w)
             /\ (mo /\ m = "build") => w = 1
             /\ \E enough \in (IF mo THEN SUBSET chunks ELSE {{}}) : Run(op, enough)

\* generation: the cases (input, mode, workers) without computing the layout
GenRun(op) == phase = "in" /\ phase' = "done" /\ opt' = op /\ lay' = [x |-> 0] /\ UNCHANGED input
GenNextW ==
    \/ AddAny
    \/ \E m \in Modes, w \in WorkerSet :
         /\ ModeOK(m, w)
         /\ GenRun([mode |-> m, minOn |-> FALSE, workers |-> w, chunk |-> ChunkSz])

Spec == Init /\ [][Next]_vars

-----------------------------------------------------------------------------
(* The C03 formulas, over `lay` only (model: abstract content ids = (entry, offset, length) triples;       *)
(* monitor: SHA-256 strings computed by the independent reader of the driver).                             *)
Done == phase = "done" /\ ~lay.refused      \* a refused input yields no blob: nothing to index, nothing lost silently
T == lay.toc
DataRows == {j \in 1..Len(T) : T[j].data}
Len0(t) == IF t.cs # 0 THEN t.cs ELSE (LET regs == {j \in 1..Len(T) : T[j].type = "reg" /\ T[j].name = t.name} IN
                                      IF regs = {} THEN 0 - 1 ELSE T[CHOOSE j \in regs : TRUE].size - t.o)

\* decompressing the stream that starts at offset and skipping innerOffset yields exactly that chunk of that file
TocAddressesRightBytes ==
    Done => /\ \A j \in DataRows : T[j].at = T[j].src /\ T[j].cd = T[j].src
            /\ \A j \in 1..Len(T) : T[j].type = "reg" => T[j].fd = T[j].fsrc

\* the reg/chunk rows of one file tile [0, size) in order
ChunksTileFile ==
    Done => \A j \in 1..Len(T) : (T[j].type = "reg" /\ T[j].size > 0) =>
              LET rows == SelectSeq(T, LAMBDA t : t.name = T[j].name /\ t.data) IN
              /\ rows[1].o = 0 /\ rows[1].type = "reg"
              /\ \A k \in 1..(Len(rows) - 1) : rows[k].o + Len0(rows[k]) = rows[k + 1].o /\ rows[k + 1].type = "chunk"
              /\ rows[Len(rows)].o + Len0(rows[Len(rows)]) = T[j].size

\* every recorded offset is the start of a member, two rows never address the same place
OffsetsUniquePerStreamStart ==
    Done => /\ \A j \in DataRows : \E g \in 1..Len(lay.members) : lay.members[g].s = T[j].off
            /\ \A j, k \in DataRows : (j # k) => <<T[j].off, T[j].inner>> # <<T[k].off, T[k].inner>>
            /\ \A j, k \in DataRows : (j < k /\ T[j].off = T[k].off) => T[j].inner < T[k].inner
            /\ \A j, k \in DataRows : (j < k) => T[j].off <= T[k].off

\* the decompressed tar holds exactly the expected entries in order - name, type, link name, size, content AND
\* metadata (mode, uid, gid, mtime) - and the TOC lists the same entries with the same metadata (chunks folded)
TocView(t) == [name |-> t.name, type |-> t.type, link |-> t.link, size |-> t.size, meta |-> t.meta]
EntView(e) == [name |-> e.name, type |-> e.type, link |-> e.link, size |-> IF e.type = "reg" THEN e.size ELSE 0, meta |-> e.meta]
EntriesPreserved ==
    Done => /\ lay.order = lay.expected
            /\ LET rows == SelectSeq(T, LAMBDA t : t.type # "chunk") IN
               [j \in 1..Len(rows) |-> TocView(rows[j])] = [j \in 1..Len(lay.expected) |-> EntView(lay.expected[j])]

DiffIDIsHashOfDecompressed == Done => lay.diffid = lay.shaAll
TocDigestIsHashOfTocJSON   == Done => lay.tocdigest = lay.shaToc
LosslessIdentity           == (Done /\ opt.mode = "lossless") => lay.shaPayload = lay.shaInput
=============================================================================

\* liveness part of WaitReturns under weak fairness of the waiter's own branches (smaller process sets, no VIEW)
CONSTANTS
    Scenarios <- ScenSmall
    StrictFilter = TRUE
    CloseOnFailure = TRUE
    HonourNoPrefetch = TRUE
    CapAtBlobSize = TRUE
    BgAllFiles = TRUE
    WaitHonoursTimeout = TRUE
    ThresholdOnEffective = TRUE
    FailOnCacheError = TRUE
    AllowReg = FALSE
SPECIFICATION FairSpec
PROPERTIES WaitReturns
INVARIANTS WaitNeverStuckE
CHECK_DEADLOCK FALSE

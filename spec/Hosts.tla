------------------------------- MODULE Hosts -------------------------------
(***************************************************************************)
(* Property C18, host list: "headers configured for a registry host are    *)
(* sent to that host only" at the step that turns the resolver config into *)
(* the list of docker.RegistryHost (service/resolver/registry.go           *)
(* RegistryHostsFromConfig) and at the fall-through over that list         *)
(* (fs/remote/resolver.go newHTTPFetcher: "Try another").                  *)
(*                                                                         *)
(*   Build(c)      hosts(ref): one loop iteration per configured mirror,   *)
(*                 then the implicitly appended origin host (which never   *)
(*                 has configured headers). The loop-local `header` is     *)
(*                 what HeaderPerEntry is about: TRUE = a fresh variable   *)
(*                 per entry (as in the code), FALSE = one variable for    *)
(*                 the whole loop (an entry without headers inherits the   *)
(*                 previous entry's).                                      *)
(*   Resolve(up)   remote.Resolver.Resolve starts; up = the hosts that     *)
(*                 have the blob (environment), the others answer 404      *)
(*   Send          one HTTP request of newHTTPFetcher / blob.Check to the  *)
(*                 host currently tried: GET (redirect()); a host that     *)
(*                 fails is given up and the next entry is tried; a host   *)
(*                 that serves gets HEAD (getSize) and the check GET.      *)
(*                                                                         *)
(* A host's header is named after the host ("m1" carries X-Token-m1), so   *)
(* a set of host names says whose headers a request or a list entry has.   *)
(* Deliberate deviations: distinct mirror hosts only; header values of     *)
(* type string only; timeouts, insecure/localhost scheme selection and     *)
(* the docker.io -> registry-1.docker.io rename are not modelled.          *)
(***************************************************************************)
EXTENDS Integers, Sequences, FiniteSets, TLC

CONSTANTS
    Mirrors,         \* mirror host names (strings)
    MaxMirrors,      \* bound on the number of configured mirrors
    HeaderPerEntry   \* TRUE = `header` is declared inside the loop body (as in the code)

Origin == "origin"

VARIABLES
    cfg,     \* Seq of [host, hdr]: the configured mirrors in order, hdr = headers configured for it?
    out,     \* Seq of [host, hdrs]: the produced RegistryHost list; hdrs = set of hosts whose headers it carries
    phase,   \* "idle" | "built" | "resolving" | "done"
    up,      \* hosts that have the blob
    k,       \* index into out of the host being tried
    step,    \* "get" | "head" | "check"
    last

core == <<cfg, out, phase, up, k, step>>
vars == <<cfg, out, phase, up, k, step, last>>

SeqsUpTo(S, n) == UNION {[1..m -> S] : m \in 0..n}
Distinct(s) == \A i, j \in 1..Len(s) : i # j => s[i].host # s[j].host
Configs == {c \in SeqsUpTo([host : Mirrors, hdr : BOOLEAN], MaxMirrors) : Distinct(c)}

\* the entries the loop runs over: append(cfg.Host[host].Mirrors, MirrorConfig{Host: host})
Entries(c) == c \o <<[host |-> Origin, hdr |-> FALSE]>>

\* value of the `header` variable after the loop body ran for entry i
RECURSIVE HeaderAt(_, _)
HeaderAt(c, i) ==
    IF i = 0 THEN {}
    ELSE IF Entries(c)[i].hdr THEN {Entries(c)[i].host}
    ELSE IF HeaderPerEntry THEN {} ELSE HeaderAt(c, i - 1)

BuildList(c) == [i \in 1..Len(Entries(c)) |-> [host |-> Entries(c)[i].host, hdrs |-> HeaderAt(c, i)]]

Init ==
    /\ cfg = <<>> /\ out = <<>> /\ phase = "idle" /\ up = {} /\ k = 0 /\ step = "get"
    /\ last = [act |-> "Init"]

Build(c) ==
    /\ phase = "idle"
    /\ cfg' = c
    /\ out' = BuildList(c)
    /\ phase' = "built"
    /\ UNCHANGED <<up, k, step>>
    /\ last' = [act |-> "Build", cfg |-> c]

Resolve(u) ==
    /\ phase = "built"
    /\ up' = u
    /\ k' = 1 /\ step' = "get"
    /\ phase' = "resolving"
    /\ UNCHANGED <<cfg, out>>
    /\ last' = [act |-> "Resolve", up |-> u]

Send ==
    /\ phase = "resolving"
    /\ LET e  == out[k]
           ok == e.host \in up
       IN
        /\ last' = [act |-> "Send", host |-> e.host, hdrs |-> e.hdrs,
                    meth |-> IF step = "head" THEN "HEAD" ELSE "GET", ok |-> ok]
        /\ IF ~ok
           THEN \* failed to redirect / get size: try another
                IF k < Len(out)
                THEN k' = k + 1 /\ step' = "get" /\ UNCHANGED phase
                ELSE phase' = "done" /\ UNCHANGED <<k, step>>
           ELSE CASE step = "get"   -> step' = "head" /\ UNCHANGED <<k, phase>>
                  [] step = "head"  -> step' = "check" /\ UNCHANGED <<k, phase>>
                  [] step = "check" -> phase' = "done" /\ UNCHANGED <<k, step>>
    /\ UNCHANGED <<cfg, out, up>>

Next ==
    \/ \E c \in Configs : Build(c)
    \/ \E u \in SUBSET (Mirrors \cup {Origin}) : Resolve(u)
    \/ Send

Spec == Init /\ [][Next]_vars

----------------------------------------------------------------------------
(* Property C18 (host list), over the given config, the produced list and   *)
(* the requests                                                             *)

\* the headers configured for host x in the config
Own(x) == IF \E i \in 1..Len(cfg) : cfg[i].host = x /\ cfg[i].hdr THEN {x} ELSE {}

\* every produced RegistryHost carries exactly the headers configured for THAT host (none if none configured)
HostHeadersOwn == \A i \in 1..Len(out) : out[i].hdrs = Own(out[i].host)
\* every request carries at most the headers configured for the host it goes to
SentHeadersOwnP(l) == l.act = "Send" => l.hdrs \subseteq Own(l.host)
SentHeadersOwn == [][SentHeadersOwnP(last')]_vars

(* design consistency (not part of the property)                            *)
ListShape == phase # "idle" => (Len(out) = Len(cfg) + 1 /\ out[Len(out)].host = Origin)
=============================================================================

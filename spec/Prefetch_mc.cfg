\* exhaustive: 8 abstract scenarios, 2 Prefetch callers, 2 waiters, 2 BackgroundFetch callers
CONSTANTS
    Scenarios <- Scen
    StrictFilter = TRUE
    CloseOnFailure = TRUE
    HonourNoPrefetch = TRUE
    CapAtBlobSize = TRUE
    BgAllFiles = TRUE
    WaitHonoursTimeout = TRUE
    ThresholdOnEffective = TRUE
    FailOnCacheError = TRUE
    AllowReg = TRUE
INIT Init
NEXT Next
VIEW core
INVARIANTS AfterPrefetchPrioritizedReadsAreLocal NoPrefetchLandmarkNoTraffic ConfiguredSizeCapped PrefetchTrafficConfined AfterBackgroundFetchOfflineReadable SuccessMeansCached WaiterClosedAtEnd WaitNilOnlyIfEndedOrAsync WaitResult WaitNeverStuck TypeOK OnceRunsOnce
CHECK_DEADLOCK FALSE

------------------------ MODULE SnapshotterMonitor ------------------------
(* Monitor (soundness rule, DESIGN 2.5): no enabling conditions.  The next  *)
(* recorded observation of the IMPLEMENTATION is loaded into the observable *)
(* variables of Snapshotter.tla and only the formulas of C08/C09 are        *)
(* evaluated.  History kept here: the metadata at the last Call (`pre'),    *)
(* whether the call created its snapshot (`hc').                            *)
EXTENDS Snapshotter, Json, TLCExt

VARIABLES l, pre, hc, kre
mvars == <<vars, l, pre, hc, kre>>

TraceLog == ndJsonDeserialize("trace.ndjson")
Ev == TraceLog[l]
Fld(f) == f \in DOMAIN Ev
ToSet(s) == {s[i] : i \in DOMAIN s}
Empty == InitMeta

MonInit == Init /\ l = 1 /\ pre = Empty /\ hc = FALSE /\ kre = <<>>

NewMeta == IF Ev.ev = "Reset" THEN Empty
           ELSE IF Fld("meta") THEN [n \in Names |-> Ev.meta[n]] ELSE meta

MonLast ==
    CASE Ev.ev = "Call" -> [act |-> "Call", op |-> Ev.op, k |-> Ev.k, p |-> Ev.p, tgt |-> Ev.tgt, u |-> Ev.u]
      [] Ev.ev = "Hook" -> [act |-> "Hook", name |-> Ev.name, d |-> IF Fld("d") THEN Ev.d ELSE -1]
      [] Ev.ev = "FsMount" -> [act |-> "FsMount", d |-> Ev.d, ok |-> Ev.ok, ref |-> Ev.ref, u |-> Ev.u, op |-> Ev.op]
      [] Ev.ev = "FsUnmount" -> [act |-> "FsUnmount", d |-> Ev.d, hit |-> Ev.hit, ok |-> Ev.ok, op |-> Ev.op]
      [] Ev.ev = "Return" ->
            [act |-> "Return", op |-> Ev.op, k |-> Ev.k, p |-> Ev.p, tgt |-> Ev.tgt, err |-> Ev.err,
             lower |-> Ev.lower, called |-> ToSet(Ev.called), bad |-> ToSet(Ev.bad),
             created |-> hc, made |-> (Ev.tgt # "" /\ ~Has(pre, Ev.tgt) /\ Has(NewMeta, Ev.tgt)),
             had |-> Has(pre, Ev.k), leaf |-> ~HasChild(pre, Ev.k)]
      [] Ev.ev = "Crash" -> [act |-> "Crash", bs |-> Ev.bs, d |-> IF Fld("d") THEN Ev.d ELSE 0]
      [] Ev.ev = "Restart" -> [act |-> "Restart", ai |-> Ev.ai, nr |-> Ev.nr]
      [] Ev.ev \in {"Started", "StartFailed"} -> [act |-> Ev.ev, ai |-> Ev.ai, nr |-> Ev.nr, failed |-> ToSet(Ev.failed), imp |-> ToSet(Ev.imp)]
      [] OTHER -> [act |-> "Init"]

MonNext ==
    /\ l <= Len(TraceLog)
    /\ l' = l + 1
    /\ last' = MonLast
    /\ meta' = NewMeta
    /\ pre' = IF Ev.ev = "Reset" THEN Empty ELSE IF Ev.ev = "Call" THEN meta ELSE pre
    /\ hc' = IF Ev.ev \in {"Call", "Reset"} THEN FALSE
             ELSE IF Ev.ev = "Hook" /\ Ev.name = "create.commit" THEN TRUE ELSE hc
    /\ IF Ev.ev = "Reset"
       THEN dirs' = InitDirs /\ tmps' = 0 /\ mounts' = InitMounts /\ stale' = {}
       ELSE /\ dirs' = ToSet(Ev.dirs) /\ tmps' = Ev.tmps /\ mounts' = Ev.mounts
            /\ stale' = ToSet(Ev.kern) \ MDirsOf(Ev.mounts)
    /\ up' = IF Ev.ev \in {"Reset", "Started"} THEN "up"
             ELSE IF Ev.ev \in {"Crash", "StartFailed"} \/ (Ev.ev = "Return" /\ Ev.op = "Close") THEN "down" ELSE up
    /\ kre' = IF Ev.ev = "Restart" THEN Ev.kern ELSE kre      \* the kernel's mounts below the root when the start began
    /\ op' = IdleOp /\ seq' = 0 /\ nops' = 0 /\ nrs' = 0 /\ bsurv' = FALSE

\* the formulas, evaluated on the state just loaded; a false one is REPORTED (with the line of the event) and the
\* monitor goes on, so that one pass lists every violation of every recorded behaviour
Chk(name, ok) == ok \/ PrintT("VVIOL " \o name \o " " \o ToString(l))

MonC08 ==
    /\ Chk("PrepareTargetOutcome", PrepareTargetOutcome')
    /\ Chk("RejectedCreateReportsError", RejectedCreateReportsError')
    /\ Chk("NoMountsIfRemoteUnavailable", NoMountsIfRemoteUnavailable')
    /\ Chk("UnavailableOnlyIfCheckFailed", UnavailableOnlyIfCheckFailed')
    /\ Chk("LowerDirsNearestFirst", LowerDirsNearestFirst')
    /\ Chk("UnmountOnlyAfterRemovedOrClosing", UnmountOnlyAfterRemovedOrClosing')
    /\ Chk("UnmountBeforeRmdir", UnmountBeforeRmdir')
    /\ Chk("ReclaimedDirIsGone", ReclaimedDirIsGone')
    /\ Chk("AfterCleanupDirsAreLive", AfterCleanupDirsAreLive')
    /\ Chk("MetaHasDirs", MetaHasDirs')
    /\ Chk("RemoveOfLeafSucceeds", RemoveOfLeafSucceeds')
    /\ Chk("AckedStayUntilRemoved", AckedStayBody)
    /\ Chk("LabelsStable", LabelsStableBody)
    /\ Chk("KernelAgrees", Ev.ev = "Reset" \/ Len(Ev.kern) = Len(mounts') + Cardinality(stale'))

MonC09 ==
    /\ Chk("RestartSucceedsOrPrescribed", RestartSucceedsOrPrescribed')
    /\ Chk("RemountedExactly", RemountedExactly')
    /\ Chk("RestoredWithStoredLabels", RestoredWithStoredLabels')
    \* ... and with NoRestore the kernel still serves exactly what it served when the start began
    /\ Chk("NoRestoreKeepsMounts", NoRestoreKeepsBody /\ ((Ev.ev = "Started" /\ Ev.nr) => Ev.kern = kre))
    \* after any successful start every entry of the backend table is a kernel mount, counted once
    /\ Chk("StartedMountsServed", Ev.ev = "Started" => Len(Ev.kern) = Len(mounts') + Cardinality(stale'))
    /\ Chk("RestartPreservesSnapshots", RestartPreservesBody)
    /\ Chk("OneCleanupRemovesHalfMade", OneCleanupRemovesHalfMade')

MonStep == MonNext /\ MonC08 /\ MonC09
MonSpec == MonInit /\ [][MonStep]_mvars
=============================================================================

\* generation: 1 invocation, 2 prioritized begin/end pairs, concurrency 1
CONSTANTS
    Invs = {1}
    Concurrency = 1
    MaxDo = 2
    WaitBodyOnCancel = TRUE
    RecheckUnderLock = TRUE
    DecrAfterSilence = TRUE
    UseSem = TRUE
    NotifyArm = TRUE
    AwaitBodyOnTimeout = TRUE
    Timeouts = TRUE
    AcquireIgnoresTimeout = TRUE
    BroadcastAll = TRUE
INIT GenInit
NEXT GenNext
VIEW core
CHECK_DEADLOCK FALSE

CONSTANTS
    Scenarios = {}
    StrictFilter = TRUE
    CloseOnFailure = TRUE
    HonourNoPrefetch = TRUE
    CapAtBlobSize = TRUE
    BgAllFiles = TRUE
    WaitHonoursTimeout = TRUE
    ThresholdOnEffective = TRUE
    FailOnCacheError = TRUE
    AllowReg = TRUE
SPECIFICATION MonSpec
INVARIANTS AfterPrefetchPrioritizedReadsAreLocal NoPrefetchLandmarkNoTraffic MonConfiguredSizeCapped PrefetchTrafficConfined AfterBackgroundFetchOfflineReadable MonSuccessMeansCached WaiterClosedAtEnd MonWaitNilOnlyIfEndedOrAsync MonWaitBounded MonCompletes
CHECK_DEADLOCK FALSE

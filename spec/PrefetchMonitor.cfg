CONSTANTS
    Scenarios = {}
    StrictFilter = TRUE
    CloseOnFailure = TRUE
    HonourNoPrefetch = TRUE
    CapAtBlobSize = TRUE
    BgAllFiles = TRUE
    WaitHonoursTimeout = TRUE
    AllowReg = TRUE
SPECIFICATION MonSpec
INVARIANTS AfterPrefetchPrioritizedReadsAreLocal NoPrefetchLandmarkNoTraffic MonConfiguredSizeCapped PrefetchTrafficConfined AfterBackgroundFetchOfflineReadable WaiterClosedAtEnd MonWaitBounded MonCompletes
CHECK_DEADLOCK FALSE

CONSTANTS
    Scenarios = {}
    StrictFilter = TRUE
    CloseOnFailure = TRUE
    HonourNoPrefetch = TRUE
    CapAtBlobSize = TRUE
    BgAllFiles = TRUE
    WaitHonoursTimeout = TRUE
    ThresholdOnEffective = TRUE
    AllowReg = TRUE
SPECIFICATION MonSpec
INVARIANTS AfterPrefetchPrioritizedReadsAreLocal NoPrefetchLandmarkNoTraffic MonConfiguredSizeCapped PrefetchTrafficConfined AfterBackgroundFetchOfflineReadable WaiterClosedAtEnd MonWaitNilOnlyIfEndedOrAsync MonWaitBounded MonCompletes
CHECK_DEADLOCK FALSE

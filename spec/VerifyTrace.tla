---------------------------- MODULE VerifyTrace ----------------------------
(* Trace validation for Verify: events recorded while the Go drivers step  *)
(* real VerifiableReader / layer objects through TLC-generated walks       *)
(* (goroutines of readAndCache and VerifyTOC are held at the verifhook     *)
(* gates, so each event is one spec action).                               *)
(* Fields: ev + the action's arguments + its observed result; after every  *)
(* step the projection of the implementation state: cache (array: "-" |    *)
(* "g" | "s" per chunk), pf (same for the whole-file entry) and - in the   *)
(* reader package only - the flags prohibit, lastErr, verify.              *)
EXTENDS Verify, Json

VARIABLE l
tvars == <<vars, l>>
TraceLog == ndJsonDeserialize("trace.ndjson")
Ev == TraceLog[l]
Has(f) == f \in DOMAIN Ev
IsEvent(e) == l <= Len(TraceLog) /\ Ev.ev = e /\ l' = l + 1

ObsOK ==
    /\ (Has("cache") => \A c \in Chunks : Ev.cache[c] = cache'[c])
    /\ (Has("pf") => \A c \in Chunks : Ev.pf[c] = pf'[c])
    /\ (Has("prohibit") => Ev.prohibit = prohibit')
    /\ (Has("verify") => Ev.verify = verify')
\* lastErr is compared except right after VTUnlock (workers blocked in RLock run on their own then)
ErrOK == Has("lastErr") => Ev.lastErr = lastErr'

TraceInit == Init /\ l = 1 /\ TLCSet(1, 0)

TraceReset ==
    /\ IsEvent("Reset")
    /\ fscfg' = IF Has("fscfg") THEN Ev.fscfg ELSE "--"
    /\ toc' = Ev.toc
    /\ src' = [c \in Chunks |-> "g"] /\ cache' = [c \in Chunks |-> "-"] /\ pf' = NoPf
    /\ prohibit' = FALSE /\ lastErr' = FALSE /\ verify' = FALSE
    /\ lr' = "nil" /\ okArgs' = {} /\ served' = {}
    /\ wk' = [w \in Workers |-> WIdle] /\ vt' = VIdle /\ rd' = [r \in Readers |-> RIdle]
    /\ nalter' = 0 /\ nverify' = 0
    /\ last' = [act |-> "Init"]

TraceAlter == IsEvent("Alter") /\ Alter(Ev.c, Ev.k) /\ ObsOK /\ ErrOK
TraceWProbe == IsEvent("WProbe") /\ WProbe(Ev.w, Ev.c) /\ last'.hit = Ev.hit /\ ObsOK /\ ErrOK
TraceWReadSrc == IsEvent("WReadSrc") /\ WReadSrc(Ev.w) /\ last'.res = Ev.res /\ ObsOK /\ ErrOK
TraceWTryDecide == IsEvent("WTryDecide") /\ WTryDecide(Ev.w) /\ Ev.blocked = TRUE /\ ObsOK /\ ErrOK
TraceWDecide == IsEvent("WDecide") /\ WDecide(Ev.w) /\ last'.res = Ev.res /\ ObsOK /\ ErrOK
TraceWCommit == IsEvent("WCommit") /\ WCommit(Ev.w) /\ ObsOK /\ ErrOK
TraceVTLoad == IsEvent("VTLoad") /\ VTLoad(Ev.d) /\ ObsOK /\ ErrOK
TraceVTUnlock == IsEvent("VTUnlock") /\ VTUnlock /\ ObsOK
TraceVTFinish == IsEvent("VTFinish") /\ VTFinish /\ last'.res = Ev.res /\ ObsOK /\ ErrOK
TraceLayerVerify == IsEvent("LayerVerify") /\ LayerVerify(Ev.d) /\ last'.res = Ev.res /\ ObsOK /\ ErrOK
TraceMount ==
    /\ IsEvent("Mount") /\ Mount(Ev.tl, Ev.sk) /\ last'.res = Ev.res
    /\ (Has("lr") => lr' = Ev.lr)      \* whether the reader of the mounted layer came from VerifyTOC or SkipVerify
    /\ ObsOK /\ ErrOK
TraceLayerSkip == IsEvent("LayerSkip") /\ LayerSkip /\ ObsOK /\ ErrOK
TraceRead == IsEvent("Read") /\ Read(Ev.r, Ev.c) /\ last'.res = Ev.res /\ last'.v = Ev.v /\ ObsOK /\ ErrOK
TracePassRead ==
    /\ IsEvent("PassRead") /\ PassRead(Ev.r) /\ last'.res = Ev.res
    /\ \A c \in Chunks : last'.vals[c] = Ev.vals[c]
    /\ ObsOK /\ ErrOK

\* what the cache holds once every goroutine of the walk has run to its end: for the monitor only
\* (LateRead: reads the driver issues at the very end if some VerifyTOC returned success - monitor only as well)
TraceEnd == (IsEvent("End") \/ IsEvent("LateRead")) /\ UNCHANGED vars

TraceNext ==
    \/ TraceEnd
    \/ TraceReset \/ TraceAlter \/ TraceWProbe \/ TraceWReadSrc \/ TraceWTryDecide \/ TraceWDecide \/ TraceWCommit
    \/ TraceVTLoad \/ TraceVTUnlock \/ TraceVTFinish \/ TraceLayerVerify \/ TraceMount \/ TraceLayerSkip \/ TraceRead \/ TracePassRead

TraceSpec == TraceInit /\ [][TraceNext]_tvars

HighWater == IF l - 1 > TLCGet(1) THEN TLCSet(1, l - 1) ELSE TRUE
TraceAccepted ==
    IF TLCGet(1) = Len(TraceLog) THEN TRUE
    ELSE /\ PrintT("VREJECT " \o ToString(TLCGet(1)) \o " " \o ToString(Len(TraceLog)))
         /\ FALSE
=============================================================================

\* liveness under fairness of everything but the environment's Do/Done (no VIEW: `last` is part of the state)
CONSTANTS
    Invs = {1, 2}
    Concurrency = 1
    MaxDo = 2
    WaitBodyOnCancel = TRUE
    RecheckUnderLock = TRUE
    DecrAfterSilence = TRUE
    UseSem = TRUE
    NotifyArm = TRUE
    AwaitBodyOnTimeout = TRUE
    Timeouts = TRUE
    AcquireIgnoresTimeout = TRUE
    BroadcastAll = TRUE
SPECIFICATION LiveSpec
PROPERTIES EventuallyCompletes
CHECK_DEADLOCK FALSE

\* exhaustive: 1 image x 2 layers through the FUSE handlers (inode tree live), all lookup kinds, any digest
CONSTANTS
    Images <- Img1x2
    Fuse = TRUE
    Kinds = {"diff", "blob", "info"}
    Errors = TRUE
    AllTargets = TRUE
    MaxCnt = 2
    MaxNeg = 1
    DeleteInnerCounter = TRUE
    ForgetMemoOfReleased = TRUE
    ResetMemoAtLastRelease = TRUE
    DropOnlyAtZero = TRUE
    DoneDuplicate = TRUE
    ResolveDetached = TRUE
    Cancels = TRUE
INIT Init
NEXT Next
VIEW core
INVARIANTS CountNonNegative HeldWhileCached HandlesMatchLayers TypeOK OnlyOwnCached MemoOkMeansCached TrackedPositive NoCancelRemembered
PROPERTIES NeverDoneWhileUsed UnknownDigestFails LookupSucceedsIffTocInImage SuccessMeansCached LastReleaseDropsBookkeeping NextLookupResolvesAgain
CHECK_DEADLOCK FALSE

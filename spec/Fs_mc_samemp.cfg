\* the caller contract switched off: two calls on the SAME mountpoint in flight; fs.go alone does not keep MountedIffInMap
CONSTANTS
    MPs = {"m1"}
    Blobs = {"b1"}
    Labs = {"ok"}
    Ops = {"Mount", "Check", "Unmount"}
    MaxCalls = 3
    MaxConc = 2
    MaxObj = 2
    SameMp = TRUE
    OneMount = FALSE
    AllowNoVerif = TRUE
    DisableVerif = FALSE
    NoPrefetch = FALSE
    NoBgFetch = TRUE
    PreRes = FALSE
    Expiry = FALSE
    ReleaseOnFail = TRUE
    EraseOnFail = TRUE
    VerifyFirst = TRUE
    SkipNeedsAllow = TRUE
    UnmountCloses = TRUE
    CheckOwnKey = TRUE
    DoneAlways = TRUE
    BgRespectsPrio = TRUE
SPECIFICATION Spec
VIEW core
INVARIANTS TypeOK MountedIffInMap MountedLayerAlive NoUnverifiedMountUnlessAllowed NoUnverifiedInMap DoDoneBalanced BackgroundFetchOnlyAfterMountReturns
PROPERTIES FailedMountLeavesNothing UnmountReleasesLayer CheckReachesOwnLayer BackgroundFetchStartsIdle
CHECK_DEADLOCK FALSE

CONSTANTS
    Names = {"a"}
    NH = 2
    MaxR = 1000000
    MaxFault = 1000000
    MaxBreak = 1000000
    TrackFiles = FALSE
    Extras = TRUE
    SymBreak = FALSE
    ResolveLock = TRUE
    CloseWaitsForHolders = TRUE
    LayerKeepsBlobRef = TRUE
    CleanupOnFailure = TRUE
    IdentityEvict = TRUE
    CloseReleasesBlob = TRUE
    CloseFiles = TRUE
    StampOnlyOnSuccess = TRUE
    BlobReleasedOnCloseError = TRUE
SPECIFICATION MonSpec
INVARIANTS HeldLayerServes AllReleasedAndEvictedFreesEverything UnusedBlobIsGone ClosedMeansGone NoOpenFilesAfterClose FailedResolveLeaksNothing HeldReadsWork BurstSharesOneInstance SampleServes
PROPERTIES ReadWorks ReturnedIsCached NoDuplicateCreation ResolveAgainWorks CheckNotFooled
CHECK_DEADLOCK FALSE

SPECIFICATION MonSpec
CONSTRAINT Report
INVARIANTS StoresAgree
CHECK_DEADLOCK FALSE

------------------------------- MODULE Node -------------------------------
(***************************************************************************)
(* One directory of a layer as fs/layer/node.go serves it to the kernel    *)
(* (go-fuse node API): node.readdir, node.Lookup, node.Getattr,            *)
(* whiteout.Getattr, node.Getxattr / Listxattr, the hidden state directory *)
(* with its stat file.  Property C07, single-directory part.               *)
(*                                                                         *)
(* State of the implementation that is modelled:                           *)
(*   src            the directory's children in the layer tar given to the *)
(*                  eStargz writer                                         *)
(*   Raw            the children as the TOC has them (= what the metadata  *)
(*                  reader returns): the writer drops a root entry named   *)
(*                  stargz.index.json (estargz.go, Writer.appendTar)       *)
(*   cached, ents   node.entsCached / node.ents (memoised listing, entsMu) *)
(*   mem            in-memory child inodes of the go-fuse Inode tree       *)
(*                  (n.GetChild): the bridge adds a child after every      *)
(*                  successful Lookup and drops it on FORGET               *)
(*   fetched, reported   blob.FetchedSize(); number of errors reported via  *)
(*                  state.report (the stat file shows the last one)        *)
(*   sfheld         a client holds the stat file's inode from an earlier   *)
(*                  lookup (and may read it without a fresh Getattr)       *)
(* One action per call (each call is one critical section w.r.t. the       *)
(* state above; calls are issued one at a time - the orders are what is    *)
(* enumerated, not concurrency).                                           *)
(*                                                                         *)
(* Inode numbers are abstract: the inode of a served entry is named by the *)
(* RAW entry it is derived from (the code computes baseInode<<32 | 3+id of *)
(* that raw entry); whether the real numbers are unique and stable is      *)
(* decided by the monitor on the recorded numbers.                         *)
(***************************************************************************)
EXTENDS Overlay, TLC

CONSTANTS
    RawU,           \* universe of child names in the layer tar
    LookupU,        \* names that are looked up (present or not)
    MaxChildren,    \* at most this many children ...
    ExtraContents,  \* ... plus these contents (sets of names)
    Modes,          \* opaque-xattr modes: subset of {"trusted", "user", "all"}
    RootChoices,    \* subset of BOOLEAN: is the directory the layer root or a sub-directory
    MaxFetched,     \* bound on blob.FetchedSize() steps
    MaxReports,     \* bound on errors reported to the stat file
    StatOnlyEmpty,  \* TRUE: state-file actions only for the empty root (keeps generation graphs small)
    \* ---- guards of the code; each FALSE/other value is a negative control
    RealWins,               \* readdir: whiteout suppressed when a real entry of that name exists
    LandmarkHiding,         \* "root" (as in the code) / "all" / "none"
    MemoComplete,           \* the memoised listing contains the synthesised whiteouts
    PrefixedWhiteoutLookup, \* Lookup serves the whiteout OF a hidden name (.wh..wh.foo -> .wh.foo)
    OpaqueByMode,           \* opaque xattr names follow the configured mode
    WhiteoutAttr,           \* whiteouts get entryToWhAttr (0/0 char device), not the raw file's attributes
    MemWhiteoutAttr,        \* ... also when Lookup finds the whiteout among the in-memory children
    WriterDropsToc,         \* eStargz writer drops a root entry named stargz.index.json
    HardLinkSharesInode     \* a hard link is served with the inode of its target (metadata readers map both to one id)

VARIABLES
    isRoot, mode, src,      \* fixed per behaviour (chosen by Init)
    cached, ents, mem, fetched, reported, sfheld,
    last                    \* observation: the call just made and its result

core == <<isRoot, mode, src, cached, ents, mem, fetched, reported, sfheld>>
vars == <<isRoot, mode, src, cached, ents, mem, fetched, reported, sfheld, last>>

\* entry kinds of the model are a function of the name: real character devices (1:3, and 0:0 - by attributes
\* indistinguishable from a synthesised whiteout, but still a REAL entry of the layer: listed, and Lookup must succeed
\* with the entry's own inode), a block device 8:1, a fifo, a symlink, the directory "d", everything else regular
KindOf(n) == CASE n = "d" -> "dir" [] n \in {"c13", "c00"} -> "chr" [] n = "blk" -> "blk" [] n = "ff" -> "fifo"
               [] n = "sl" -> "lnk" [] OTHER -> "reg"
\* device number as the kernel gets it (unix.Mkdev(major, minor))
RdevOf(n) == CASE n = "c13" -> 259 [] n = "blk" -> 2049 [] OTHER -> 0
\* the one hard link of the model: the name "l" is a hard link to the regular file "a" of the same directory
LinkName == "l"
LinkTarget == "a"
OwnXattrs == IF isRoot THEN {} ELSE {"user.foo"}     \* the driver gives sub-directories one xattr of their own
XKeys == OpaqueKeys \cup {"user.foo", "user.none"}
LayerDigest == "sha256:c07"                          \* replaced by the real value in traces
BlobSize == 10

\* what the TOC lists
Raw == IF WriterDropsToc /\ isRoot THEN src \ {TocName} ELSE src
RawF == [n \in Raw |-> KindOf(n)]
InoOf(n) == IF n = LinkName /\ HardLinkSharesInode THEN LinkTarget ELSE n
Linked(n1, n2) == n1 # n2 /\ {n1, n2} = {LinkName, LinkTarget} /\ LinkName \in Raw
\* link count of the inode named i (whiteouts, directories of the model and the state directory report 1)
NlinkFor(i) == IF i = LinkTarget /\ LinkName \in Raw /\ HardLinkSharesInode THEN 2 ELSE 1

----------------------------------------------------------------------------
(* node.readdir: the computation under "ForeachChild"                       *)

HideLM(n) == CASE LandmarkHiding = "root" -> isRoot /\ n \in Landmarks
               [] LandmarkHiding = "all"  -> n \in Landmarks
               [] OTHER -> FALSE

CodeNormal == {n \in Raw : ~HideLM(n) /\ ~HasWhPrefix(n)}
CodeWhs    == {n \in Raw : ~HideLM(n) /\ HasWhPrefix(n) /\ n # Opq}
NormalEnts == {[name |-> n, kind |-> KindOf(n), ino |-> InoOf(n)] : n \in CodeNormal}
WhEnts     == {[name |-> Target(w), kind |-> "chr", ino |-> w] :
                  w \in {v \in CodeWhs : ~RealWins \/ Target(v) \notin CodeNormal}}
CodeListing == NormalEnts \cup WhEnts

NamesOf(L) == {e.name : e \in L}
EntryOf(L, n) == CHOOSE e \in L : e.name = n

\* what Readdir returns in the current state
CurListing == IF cached THEN ents ELSE CodeListing

Readdir ==
    /\ IF cached
       THEN /\ UNCHANGED <<cached, ents>>
            /\ last' = [act |-> "Readdir", list |-> ents]
       ELSE /\ cached' = TRUE
            /\ ents' = IF MemoComplete THEN CodeListing ELSE NormalEnts
            /\ last' = [act |-> "Readdir", list |-> CodeListing]
    /\ UNCHANGED <<isRoot, mode, src, mem, fetched, reported, sfheld>>

----------------------------------------------------------------------------
(* node.Lookup(name), in the order of the tests of the code                 *)

HiddenName(n) == HasWhPrefix(n) \/ (isRoot /\ n \in Landmarks)

Enoent(n) == [act |-> "Lookup", n |-> n, errno |-> "ENOENT", kind |-> "none", ino |-> "none", rdev |-> 0]
WhKind(w) == IF WhiteoutAttr THEN "chr" ELSE KindOf(w)
FoundR(n, k, i, rd) == [act |-> "Lookup", n |-> n, errno |-> "OK", kind |-> k, ino |-> i, rdev |-> rd, nlink |-> NlinkFor(i)]
Found(n, k, i) == FoundR(n, k, i, 0)
\* in-memory children: wh = the child is a *whiteout object (else a *node of the raw entry named by ino)
MemWh(n) == [kind |-> WhKind(WhOf(n)), ino |-> WhOf(n), rdev |-> IF WhiteoutAttr THEN 0 ELSE RdevOf(WhOf(n)), wh |-> TRUE]
MemReal(n) == [kind |-> KindOf(n), ino |-> InoOf(n), rdev |-> RdevOf(n), wh |-> FALSE]

Lookup(n) ==
    /\ n \in LookupU
    /\ UNCHANGED <<isRoot, mode, src, fetched, reported, sfheld>>
    /\ IF HiddenName(n)
       THEN \* landmarks in "/" and whiteout files themselves are not shown; the whiteout OF such a name is
            IF PrefixedWhiteoutLookup /\ WhOf(n) # Opq /\ WhOf(n) \in Raw
            THEN /\ last' = Found(n, WhKind(WhOf(n)), WhOf(n))
                 /\ mem' = [x \in DOMAIN mem \cup {n} |-> IF x = n THEN MemWh(n) ELSE mem[x]]
                 /\ UNCHANGED <<cached, ents>>
            ELSE /\ last' = Enoent(n)
                 /\ UNCHANGED <<cached, ents, mem>>
       ELSE IF isRoot /\ n = StateDir
       THEN /\ last' = Found(n, "dir", "state")
            /\ UNCHANGED <<cached, ents, mem>>
       ELSE IF n \in DOMAIN mem
       THEN \* "lookup on memory nodes"
            /\ last' = IF mem[n].wh /\ ~MemWhiteoutAttr
                       THEN FoundR(n, KindOf(mem[n].ino), mem[n].ino, RdevOf(mem[n].ino))
                       ELSE FoundR(n, mem[n].kind, mem[n].ino, mem[n].rdev)
            /\ UNCHANGED <<cached, ents, mem>>
       ELSE IF cached /\ n \notin NamesOf(ents)
       THEN \* "early return if this entry doesn't exist"
            /\ last' = Enoent(n)
            /\ UNCHANGED <<cached, ents, mem>>
       ELSE IF n \in Raw
       THEN /\ last' = FoundR(n, KindOf(n), InoOf(n), RdevOf(n))
            /\ mem' = [x \in DOMAIN mem \cup {n} |-> IF x = n THEN MemReal(n) ELSE mem[x]]
            /\ UNCHANGED <<cached, ents>>
       ELSE IF WhOf(n) \in Raw
       THEN /\ last' = Found(n, WhKind(WhOf(n)), WhOf(n))
            /\ mem' = [x \in DOMAIN mem \cup {n} |-> IF x = n THEN MemWh(n) ELSE mem[x]]
            /\ UNCHANGED <<cached, ents>>
       ELSE \* "This code path is very expensive. Cache child entries here": n.readdir()
            /\ last' = Enoent(n)
            /\ cached' = TRUE
            /\ ents' = IF cached THEN ents ELSE IF MemoComplete THEN CodeListing ELSE NormalEnts
            /\ UNCHANGED mem

\* the kernel forgets a child: the bridge removes it from the Inode tree
Forget(n) ==
    /\ n \in DOMAIN mem
    /\ mem' = [x \in DOMAIN mem \ {n} |-> mem[x]]
    /\ last' = [act |-> "Forget", n |-> n]
    /\ UNCHANGED <<isRoot, mode, src, cached, ents, fetched, reported, sfheld>>

\* Getattr of an in-memory child (node.Getattr / whiteout.Getattr)
GetattrChild(n) ==
    /\ n \in DOMAIN mem
    /\ last' = [act |-> "GetattrChild", n |-> n, errno |-> "OK", kind |-> mem[n].kind, ino |-> mem[n].ino, rdev |-> mem[n].rdev,
                nlink |-> NlinkFor(mem[n].ino)]
    /\ UNCHANGED core

\* Getattr of the directory itself
Getattr ==
    /\ last' = [act |-> "Getattr", errno |-> "OK", kind |-> "dir"]
    /\ UNCHANGED core

----------------------------------------------------------------------------
(* node.Getxattr / node.Listxattr                                           *)

CodeOpaqueKeys == IF Opq \in Raw
                  THEN (IF OpaqueByMode THEN KeysOf(mode) ELSE {"trusted.overlay.opaque"})
                  ELSE {}

Getxattr(k) ==
    /\ k \in XKeys
    /\ last' = IF k \in CodeOpaqueKeys THEN [act |-> "Getxattr", k |-> k, errno |-> "OK", val |-> "y"]
               ELSE IF k \in OwnXattrs THEN [act |-> "Getxattr", k |-> k, errno |-> "OK", val |-> "bar"]
               ELSE [act |-> "Getxattr", k |-> k, errno |-> "ENODATA", val |-> ""]
    /\ UNCHANGED core

Listxattr ==
    /\ last' = [act |-> "Listxattr", errno |-> "OK", keys |-> CodeOpaqueKeys \cup OwnXattrs]
    /\ UNCHANGED core

----------------------------------------------------------------------------
(* the state directory and its stat file (root only)                        *)

StatScope == isRoot /\ (StatOnlyEmpty => src = {})
ErrText(n) == IF n = 0 THEN "" ELSE "verif-error-" \o ToString(n)

\* environment: the blob reports a larger fetched size
Progress ==
    /\ StatScope /\ fetched < MaxFetched
    /\ fetched' = fetched + 1
    /\ last' = [act |-> "Progress"]
    /\ UNCHANGED <<isRoot, mode, src, cached, ents, mem, reported, sfheld>>

\* some operation of the layer failed: fs.s.report(err); the stat file shows the last error
Report ==
    /\ StatScope /\ reported < MaxReports
    /\ reported' = reported + 1
    /\ last' = [act |-> "Report", text |-> ErrText(reported + 1)]
    /\ UNCHANGED <<isRoot, mode, src, cached, ents, mem, fetched, sfheld>>

\* a client lists the state directory and looks the stat file up (state.Lookup -> statFile.attr); it keeps the inode
StatLookup ==
    /\ StatScope
    /\ sfheld' = TRUE
    /\ last' = [act |-> "StatLookup", errno |-> "OK", fname |-> LayerDigest \o ".json", dirino |-> "state", fileino |-> "statfile"]
    /\ UNCHANGED <<isRoot, mode, src, cached, ents, mem, fetched, reported>>

\* Getattr on the inode held (statFile.Getattr -> attr)
StatGetattr ==
    /\ StatScope /\ sfheld
    /\ last' = [act |-> "StatGetattr", errno |-> "OK", fileino |-> "statfile"]
    /\ UNCHANGED core

\* Read on the inode held, WITHOUT a fresh lookup or Getattr (statFile.Read): the content is computed at read time
StatRead ==
    /\ StatScope /\ sfheld
    /\ last' = [act |-> "StatRead", errno |-> "OK", json |-> TRUE, digest |-> LayerDigest, size |-> BlobSize,
                fetched |-> fetched, err |-> ErrText(reported)]
    /\ UNCHANGED core

----------------------------------------------------------------------------
\* (a hard link needs its target)
Contents == {s \in SUBSET RawU : Cardinality(s) <= MaxChildren /\ (LinkName \in s => LinkTarget \in s)} \cup ExtraContents

Init ==
    /\ isRoot \in RootChoices
    /\ mode \in Modes
    /\ src \in Contents
    /\ cached = FALSE /\ ents = {} /\ mem = Empty
    /\ fetched = 0 /\ reported = 0 /\ sfheld = FALSE
    /\ last = [act |-> "Init"]

Next ==
    \/ Readdir
    \/ \E n \in LookupU : Lookup(n)
    \/ \E n \in LookupU : Forget(n)
    \/ \E n \in LookupU : GetattrChild(n)
    \/ Getattr
    \/ \E k \in XKeys : Getxattr(k)
    \/ Listxattr
    \/ Progress \/ Report \/ StatLookup \/ StatGetattr \/ StatRead

Spec == Init /\ [][Next]_vars

----------------------------------------------------------------------------
(* Property C07 (single directory).  The formulas are parameterised by the *)
(* observables so that the monitor evaluates the same definitions on what  *)
(* the implementation returned.                                            *)

DotEnts == {[name |-> ".", kind |-> "dir"], [name |-> "..", kind |-> "dir"]}
Proj(L) == {[name |-> e.name, kind |-> e.kind] : e \in L}
\* the translation the statement demands of this directory, as a listing (without inode numbers)
Wanted(rawnames, root) ==
    LET t == Translate([n \in rawnames |-> KindOf(n)], root)
    IN {[name |-> x, kind |-> t[x].kind] : x \in DOMAIN t}

\* a listing L (set of [name, kind, ino]) is the translation of the directory: whiteout => char device named X
\* unless a real X exists; markers, root landmarks, the TOC entry never listed; no name twice
ListingOK(L, tocnames, root) ==
    /\ Proj(L) = Wanted(tocnames \ (IF root THEN {TocName} ELSE {}), root)
    /\ Cardinality(NamesOf(L)) = Cardinality(L)

\* a Lookup result r agrees with a listing L of the same directory
LookupAgrees(r, L, root) ==
    (r.n \notin {".", ".."} /\ ~(root /\ r.n = StateDir)) =>
        /\ (r.errno = "OK") <=> (r.n \in NamesOf(L))
        /\ r.errno = "OK" => /\ r.kind = EntryOf(L, r.n).kind
                             /\ r.ino = EntryOf(L, r.n).ino
        /\ r.errno \in {"OK", "ENOENT"}

\* type and device number of a served entry r (Lookup / Getattr of a child): a REAL entry of the layer has its own kind
\* and rdev (a real 0:0 character device included), a synthesised whiteout is a character device 0:0
EntryAttrOK(r, rawnames, root) ==
    (r.errno = "OK" /\ r.n \notin {".", ".."} /\ ~(root /\ r.n = StateDir)) =>
        IF r.n \in NormalNames([x \in rawnames |-> KindOf(x)], root)
        THEN r.kind = KindOf(r.n) /\ r.rdev = RdevOf(r.n)
        ELSE r.kind = "chr" /\ r.rdev = 0

\* opaque marker => exactly the configured overlay opaque xattr(s), value "y"
GetxattrOK(r, rawnames, m) ==
    r.k \in OpaqueKeys => ((r.errno = "OK" /\ r.val = "y") <=> (Opq \in rawnames /\ r.k \in KeysOf(m)))
ListxattrOK(r, rawnames, m) ==
    r.keys \cap OpaqueKeys = (IF Opq \in rawnames THEN KeysOf(m) ELSE {})

\* what is READ from the stat file is valid JSON reporting the digest, the size, the CURRENT fetched size and the
\* LAST reported error (whenever the inode was looked up)
StatOK(r, dg, sz, fe, errtext) ==
    /\ r.errno = "OK" /\ r.json
    /\ r.digest = dg /\ r.size = sz /\ r.fetched = fe /\ r.err = errtext
StatNameOK(r, dg) == r.errno = "OK" /\ r.fname = dg \o ".json"

\* ---- the invariants checked on the design
ListingIsTranslation ==
    /\ cached => ListingOK(ents, Raw, isRoot)
    /\ last.act = "Readdir" => ListingOK(last.list, Raw, isRoot)
    /\ ListingOK(CurListing, Raw, isRoot)
    /\ (isRoot /\ TocName \in src) => TocName \notin NamesOf(CurListing)
    /\ last.act \in {"Lookup", "GetattrChild"} => EntryAttrOK(last, Raw, isRoot)
ListedIffLookup ==
    last.act = "Lookup" => LookupAgrees(last, CurListing, isRoot)
InodesUniqueStable ==
    \* one inode per name, shared exactly by the names that are hard links of each other
    /\ \A e1, e2 \in CurListing : (e1.ino = e2.ino) <=> (e1 = e2 \/ Linked(e1.name, e2.name))
    /\ (last.act \in {"Lookup", "GetattrChild"} /\ last.errno = "OK" /\ last.kind = "reg") =>
           last.nlink = (IF LinkName \in Raw /\ last.n \in {LinkName, LinkTarget} THEN 2 ELSE 1)
    /\ \A n \in DOMAIN mem : n \in NamesOf(CurListing) => mem[n].ino = EntryOf(CurListing, n).ino
    /\ \A e \in CurListing : e.ino \notin {"state", "statfile"}
    /\ last.act = "GetattrChild" => (last.n \in NamesOf(CurListing) =>
                                        /\ last.ino = EntryOf(CurListing, last.n).ino
                                        /\ last.kind = EntryOf(CurListing, last.n).kind)
OpaqueXattr ==
    /\ last.act = "Getxattr" => GetxattrOK(last, Raw, mode)
    /\ last.act = "Listxattr" => ListxattrOK(last, Raw, mode)
StateFileJSON ==
    /\ last.act = "StatRead" => StatOK(last, LayerDigest, BlobSize, fetched, ErrText(reported))
    /\ last.act = "StatLookup" => StatNameOK(last, LayerDigest)
\* the state directory is served but never listed
StateDirHidden ==
    /\ StateDir \notin Raw => StateDir \notin NamesOf(CurListing)
    /\ (last.act = "Lookup" /\ last.n = StateDir /\ isRoot) => last.errno = "OK"

\* The formulas above speak about `last`, which the VIEW of the exhaustive configs hides (a state reached again
\* with another observation is not re-examined as a state), so they are checked on every TRANSITION:
ListingIsTranslationA == [][ListingIsTranslation']_vars
ListedIffLookupA      == [][ListedIffLookup']_vars
InodesUniqueStableA   == [][InodesUniqueStable']_vars
OpaqueXattrA          == [][OpaqueXattr']_vars
StateFileJSONA        == [][StateFileJSON']_vars
StateDirHiddenA       == [][StateDirHidden']_vars

(* internal consistency (documents the design; not part of the property)    *)
MemoIsListing == cached => ents = CodeListing
MemIsServed == \A n \in DOMAIN mem : n \in NamesOf(CodeListing)
=============================================================================

----------------------------- MODULE TocMonitor -----------------------------
(* Monitor of property C05 (soundness rule, DESIGN 2.5): the formulas below *)
(* are evaluated on what the two IMPLEMENTATIONS showed for the same blob;   *)
(* nothing of the reference semantics is involved.                           *)
(* trace.ndjson: one line per case: [case, mem (obs), db (obs)].             *)
(* The lines are independent observations: every line is a successor of the *)
(* initial state, so with -continue TLC reports every line on which a        *)
(* formula is false; "VDIS <line> <aspects>" lists all false formulas.       *)
EXTENDS Integers, Sequences, FiniteSets, TLC, Json

VARIABLE l

TraceLog == ndJsonDeserialize("trace.ndjson")
M == TraceLog[l].mem
D == TraceLog[l].db
Loaded == l >= 1
BothOpen == M.open = "ok" /\ D.open = "ok"
CommonP == DOMAIN M.nodes \cap DOMAIN D.nodes

Attrs(n) == [ty |-> n.ty, perm |-> n.perm, sb |-> n.sb, size |-> n.size, uid |-> n.uid, gid |-> n.gid,
             link |-> n.link, maj |-> n.maj, min |-> n.min, mt |-> n.mt, xa |-> n.xa]

(* both accept or reject the same blobs *)
AgreeAccept == Loaded => M.open = D.open
(* same TOC digest *)
AgreeDigest == (Loaded /\ BothOpen) => M.digest = D.digest
(* same tree of names, same node identities (hard links), the same answer from GetChild as from ForeachChild *)
AgreeTree == (Loaded /\ BothOpen) =>
    /\ DOMAIN M.nodes = DOMAIN D.nodes
    /\ \A p \in CommonP : /\ M.nodes[p].kids = D.nodes[p].kids
                          /\ M.nodes[p].same = D.nodes[p].same
                          /\ M.nodes[p].gc = D.nodes[p].gc
                          /\ M.nodes[p].fty = D.nodes[p].fty
                          /\ M.nodes[p].err = D.nodes[p].err
(* same attributes including xattrs *)
AgreeAttrs == (Loaded /\ BothOpen) => \A p \in CommonP : Attrs(M.nodes[p]) = Attrs(D.nodes[p])
(* same link counts *)
AgreeLinks == (Loaded /\ BothOpen) => \A p \in CommonP : M.nodes[p].nlink = D.nodes[p].nlink
(* same chunk boundaries and digests for every file offset *)
AgreeChunks == (Loaded /\ BothOpen) => \A p \in CommonP : M.nodes[p].of = D.nodes[p].of /\ M.nodes[p].ck = D.nodes[p].ck
(* same file bytes, with and without a pre-reader, and the same chunks handed to the pre-reader *)
AgreeBytes == (Loaded /\ BothOpen) => \A p \in CommonP :
    /\ M.nodes[p].rd = D.nodes[p].rd /\ M.nodes[p].all = D.nodes[p].all /\ M.nodes[p].prd = D.nodes[p].prd
    /\ M.nodes[p].pcb = D.nodes[p].pcb
(* same blob offset of a node (GetOffset) *)
AgreeOffsets == (Loaded /\ BothOpen) => \A p \in CommonP : M.nodes[p].off = D.nodes[p].off
(* Clone shows the same filesystem, Close succeeds *)
AgreeClone == (Loaded /\ BothOpen) => M.clone = D.clone /\ M.close = D.close

StoresAgree == /\ AgreeAccept /\ AgreeDigest /\ AgreeTree /\ AgreeAttrs /\ AgreeLinks
               /\ AgreeChunks /\ AgreeBytes /\ AgreeOffsets /\ AgreeClone

Dis == (IF AgreeAccept THEN "" ELSE "accept,") \o (IF AgreeDigest THEN "" ELSE "digest,")
       \o (IF AgreeTree THEN "" ELSE "tree,") \o (IF AgreeAttrs THEN "" ELSE "attrs,")
       \o (IF AgreeLinks THEN "" ELSE "links,") \o (IF AgreeChunks THEN "" ELSE "chunks,")
       \o (IF AgreeBytes THEN "" ELSE "bytes,") \o (IF AgreeOffsets THEN "" ELSE "offsets,")
       \o (IF AgreeClone THEN "" ELSE "clone,")
Report == (Loaded /\ ~StoresAgree) => PrintT("VDIS " \o ToString(l) \o " " \o Dis)

(* clone-early lines [n, rep, mem, db]: what a clone taken immediately after NewReader shows (BigToc(n)) *)
EarlyCloneAgree == Loaded => TraceLog[l].mem = TraceLog[l].db
ReportEarly == (Loaded /\ ~EarlyCloneAgree) => PrintT("VDIS " \o ToString(l) \o " early-clone,")

MonInit == l = 0
MonNext == l = 0 /\ l' \in 1..Len(TraceLog)
MonSpec == MonInit /\ [][MonNext]_l
=============================================================================

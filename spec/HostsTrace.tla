----------------------------- MODULE HostsTrace -----------------------------
(* Trace validation for Hosts. Input: trace.ndjson recorded by             *)
(* harness/service/resolver while the real RegistryHostsFromConfig builds  *)
(* the host list for a config and remote.Resolver resolves a blob over it  *)
(* against loopback HTTP servers (one per host) that record every request. *)
(*   Build    cfg [{host, hdr}], out [{host, hdrs [..]}]  (the real list)  *)
(*   Resolve  up [..]                                                      *)
(*   Send     host, hdrs [..], meth, ok     (every http.Request received)  *)
(*   Done     ok                                                           *)
EXTENDS Hosts, Json, TLCExt

VARIABLE l
tvars == <<vars, l>>

TraceLog == ndJsonDeserialize("trace.ndjson")
Ev == TraceLog[l]
IsEvent(e) == l <= Len(TraceLog) /\ Ev.ev = e /\ l' = l + 1
ToSet(s) == {s[i] : i \in 1..Len(s)}

TraceInit == Init /\ l = 1 /\ TLCSet(1, 0)

TraceReset ==
    /\ IsEvent("Reset")
    /\ cfg' = <<>> /\ out' = <<>> /\ phase' = "idle" /\ up' = {} /\ k' = 0 /\ step' = "get"
    /\ last' = [act |-> "Init"]

TraceBuild ==
    /\ IsEvent("Build")
    /\ LET c == [i \in 1..Len(Ev.cfg) |-> [host |-> Ev.cfg[i].host, hdr |-> Ev.cfg[i].hdr]] IN
        /\ c \in Configs
        /\ Build(c)
    \* the list the implementation produced must be the specification's
    /\ Len(Ev.out) = Len(out')
    /\ \A i \in 1..Len(out') : Ev.out[i].host = out'[i].host /\ ToSet(Ev.out[i].hdrs) = out'[i].hdrs

TraceResolve == IsEvent("Resolve") /\ Resolve(ToSet(Ev.up))

TraceSend ==
    /\ IsEvent("Send")
    /\ Send
    /\ last'.host = Ev.host /\ last'.hdrs = ToSet(Ev.hdrs) /\ last'.meth = Ev.meth /\ last'.ok = Ev.ok

TraceDone ==
    /\ IsEvent("Done")
    /\ phase = "done"
    /\ Ev.ok = (k \in 1..Len(out) /\ out[k].host \in up)
    /\ UNCHANGED vars

TraceNext == TraceReset \/ TraceBuild \/ TraceResolve \/ TraceSend \/ TraceDone

TraceSpec == TraceInit /\ [][TraceNext]_tvars

HighWater == IF l - 1 > TLCGet(1) THEN TLCSet(1, l - 1) ELSE TRUE
TraceAccepted ==
    IF TLCGet(1) = Len(TraceLog) THEN TRUE
    ELSE /\ PrintT("VREJECT " \o ToString(TLCGet(1)) \o " " \o ToString(Len(TraceLog)))
         /\ FALSE
=============================================================================

------------------------------- MODULE Store -------------------------------
(***************************************************************************)
(* Additional-layer store (store/manager.go, store/refs.go, store/fs.go):  *)
(* layers of images are looked up, used, released and looked up again.     *)
(*                                                                         *)
(* State = the maps of LayerManager that r.mu protects, the refPool        *)
(* counters, and the two things of its surroundings that decide what a     *)
(* call does: the layer cache of layer.Resolver (rc, out) and the inode    *)
(* tree that fs.go keeps per layer directory (kids).                       *)
(*                                                                         *)
(* One OPERATOR per critical section of the code:                          *)
(*   ResolveOne   resolveLayer: memo check (r.mu) ; resolver.Resolve ;     *)
(*                cacheLayer by the ACTUAL TOC digest (r.mu) ; Done() of a *)
(*                duplicate ; memo write (r.mu, deferred)                  *)
(*   ResolveAll   the goroutines of getLayer, one per manifest layer       *)
(*   UseEff       refPool.use ; use (r.mu)                                 *)
(*   the body of Release   refPool.release ; release (r.mu)                *)
(* and one ACTION per call of the API as the clients see it, which is the  *)
(* granularity at which the implementation can be observed without hooks   *)
(* (the driver waits for the resolve goroutines of a call before it reads  *)
(* the maps): Lookup (layernode.Lookup diff|blob|info = getLayer + Verify, *)
(* getLayerInfo), Use (layernode.Create "use"), Release (refnode.Rmdir).   *)
(* Resolutions of different layers touch disjoint entries, so their order  *)
(* inside one getLayer does not matter and ResolveAll folds over the       *)
(* manifest; calls racing on one image are covered by trace validation of  *)
(* free runs, not by this module's exhaustive configs (see C16.py).        *)
(*                                                                         *)
(* Naming: a layer name ("a") stands for the digest of the layer blob AND  *)
(* for the digest of its TOC (a bijection for real blobs); "x" is a TOC    *)
(* digest that no layer has. memo/out/rc are keyed by layer digest,        *)
(* layer/cnt/kids by TOC digest, as in the code.                           *)
(*                                                                         *)
(* Deliberate deviations from the code, all named:                         *)
(*  - loadRef always succeeds (manifest and config are in the refPool      *)
(*    directory; fetching them from a registry is not modelled)            *)
(*  - the 30 s time-out of getLayer and the TTL of the resolver's layer    *)
(*    cache never fire; prefetch and background fetch are off              *)
(*  - the specification is the code WITH the repair of release():          *)
(*    DeleteInnerCounter and ForgetMemoOfReleased are the two repaired     *)
(*    statements; with both FALSE the module is the pinned code            *)
(***************************************************************************)
EXTENDS Integers, Sequences, FiniteSets, TLC

CONSTANTS
    Images,        \* [ref -> sequence of layer names], the manifests
    Fuse,          \* TRUE: the calls go through rootnode/refnode/layernode (fs.go) and kids is live
    Kinds,         \* lookup kinds explored, subset of {"diff", "blob", "info"}
    Errors,        \* TRUE: the registry may fail for any subset of the image's layers during a lookup
    AllTargets,    \* TRUE: calls name any TOC digest of any image or "x"; FALSE: the image's own and "x"
    MaxCnt,        \* bound: no Use beyond this count
    MaxNeg,        \* bound: no Release once a count is at -MaxNeg (only reachable with DeleteInnerCounter = FALSE)
    \* the property-bearing statements of release() / resolveLayer() (negative controls)
    DeleteInnerCounter,     \* at zero the counter is removed from the image's counter map
                            \*   (pinned code: delete(r.refcounter, tocDigest) on the OUTER map = no-op)
    ForgetMemoOfReleased,   \* at zero the resolve status of the dropped layer is forgotten (added by the repair)
    ResetMemoAtLastRelease, \* no counter left for the image => its resolve status is reset
    DropOnlyAtZero,         \* the layer is Done()d and dropped only when its counter reaches zero
    DoneDuplicate,          \* a freshly resolved layer that is already cached is Done()d at once
    ResolveDetached,        \* the resolve goroutines of getLayer run with their own context ("avoids to get canceled by
                            \*   client"); FALSE: they inherit the caller's context, and a caller that gives up while the
                            \*   registry request is pending turns into a REMEMBERED failure of the layer
    Cancels                 \* TRUE: explore lookups whose caller gives up (ctx cancelled) while resolution is in flight

VARIABLES
    layer,   \* [ref -> [T -> BOOLEAN]]          r.layer[ref][toc] exists
    cnt,     \* [ref -> [T -> Int]]              r.refcounter[ref][toc], NoCnt = no entry
    memo,    \* [ref -> [Own(ref) -> none|ok|err|cancelled]] r.resolveLayerCache[ref][layer digest]; err = a
             \*                                  registry failure is remembered, cancelled = "context canceled" is
    out,     \* [ref -> [Own(ref) -> Nat]]       handles obtained from layer.Resolver and not yet Done()
    pool,    \* [ref -> Nat]                     refPool.refcounter[ref].count (0 = no entry)
    rc,      \* [ref -> [Own(ref) -> BOOLEAN]]   layer.Resolver has the layer in its own cache: resolving it
             \*                                  again does not reach the registry
    kids,    \* [ref -> [T -> SUBSET Kinds]]     children of the layer directory's inode (Fuse only)
    last     \* observation: the call just made and what it returned

core == <<layer, cnt, memo, out, pool, rc, kids>>
vars == <<layer, cnt, memo, out, pool, rc, kids, last>>

NoCnt == -9
Refs == DOMAIN Images
Own(r) == {Images[r][i] : i \in 1..Len(Images[r])}
AllLayers == UNION {Own(r) : r \in Refs}
T == AllLayers \cup {"x"}
Targets(r) == IF AllTargets THEN T ELSE Own(r) \cup {"x"}
IsOwn(r, t) == t \in Own(r)

\* example manifests (substituted for Images in the configs)
Img1x1    == [r1 |-> <<"a">>]
Img1x2    == [r1 |-> <<"a", "b">>]
Img2x2    == [r1 |-> <<"a", "b">>, r2 |-> <<"c", "d">>]
Img2x1    == [r1 |-> <<"a">>, r2 |-> <<"c">>]
ImgShared == [r1 |-> <<"a", "b">>, r2 |-> <<"b", "c">>]   \* r2 shares the blob b with r1
Img1x3    == [r1 |-> <<"a", "b", "c">>]

----------------------------------------------------------------------------
(* resolveLayer(ref, l) with the registry failing for the layers in fail.   *)
(* S is the part of the state it works on. cancel: the caller of getLayer   *)
(* gives up while the registry requests of this call are pending.           *)
ResolveOne(S, r, l, fail, cancel) ==
    IF S.memo[r][l] # "none"
    THEN S                                           \* "this resolving has already done": nothing, whatever the result was
    ELSE IF ~S.rc[r][l] /\ cancel /\ ~ResolveDetached
    THEN [S EXCEPT !.memo[r][l] = "cancelled"]       \* only without the detached context: the request dies with the caller
    ELSE IF ~S.rc[r][l] /\ l \in fail
    THEN [S EXCEPT !.memo[r][l] = "err"]             \* the error is remembered
    ELSE IF S.layer[r][l]                            \* cacheLayer: already exists -> discard the new handle
    THEN [S EXCEPT !.memo[r][l] = "ok", !.rc[r][l] = TRUE,
                   !.out[r][l] = IF DoneDuplicate THEN @ ELSE @ + 1]
    ELSE [S EXCEPT !.memo[r][l] = "ok", !.rc[r][l] = TRUE,
                   !.layer[r][l] = TRUE, !.out[r][l] = @ + 1]

RECURSIVE ResolveAll(_, _, _, _, _)
ResolveAll(S, r, ls, fail, cancel) ==
    IF ls = <<>> THEN S ELSE ResolveAll(ResolveOne(S, r, Head(ls), fail, cancel), r, Tail(ls), fail, cancel)

----------------------------------------------------------------------------
Init ==
    /\ layer = [r \in Refs |-> [t \in T |-> FALSE]]
    /\ cnt = [r \in Refs |-> [t \in T |-> NoCnt]]
    /\ memo = [r \in Refs |-> [l \in Own(r) |-> "none"]]
    /\ out = [r \in Refs |-> [l \in Own(r) |-> 0]]
    /\ pool = [r \in Refs |-> 0]
    /\ rc = [r \in Refs |-> [l \in Own(r) |-> FALSE]]
    /\ kids = [r \in Refs |-> [t \in T |-> {}]]
    /\ last = [act |-> "Init"]

\* layernode.Lookup(diff|blob|info). cancel = the caller gives up (its context is cancelled) while at least one
\* registry request of this call is pending; getLayer does not look at the caller's context, so the call still runs
\* to its end and answers (to nobody)
Lookup(r, t, kind, fail, cancel) ==
    LET viaNode == Fuse /\ kind \in kids[r][t]                  \* "lookup on memory nodes": the manager is not asked
        direct  == viaNode \/ kind = "info" \/ layer[r][t]      \* info: getLayerInfo answers for any digest
        S0 == [layer |-> layer, memo |-> memo, out |-> out, rc |-> rc]
        S1 == IF direct THEN S0 ELSE ResolveAll(S0, r, Images[r], fail, cancel)   \* getLayer, slow path
        \* some resolution will reach the registry, and the call waits for it: getLayer returns as soon as the wanted layer
        \* shows up, which it does without the registry when only the resolver's own cache is asked for it
        pending == /\ \E x \in Own(r) : memo[r][x] = "none" /\ ~rc[r][x]
                   /\ ~(IsOwn(r, t) /\ memo[r][t] = "none" /\ rc[r][t])
        ok == viaNode \/ kind = "info" \/ S1.layer[r][t]        \* the wanted layer showed up (Verify then holds)
    IN  /\ kind \in Kinds
        /\ fail \subseteq Own(r)
        /\ fail # {} => (Errors /\ ~direct)
        /\ cancel => (Cancels /\ ~direct /\ pending /\ fail = {})
        /\ layer' = S1.layer /\ memo' = S1.memo /\ out' = S1.out /\ rc' = S1.rc
        /\ kids' = IF Fuse /\ ok THEN [kids EXCEPT ![r][t] = @ \cup {kind}] ELSE kids
        /\ UNCHANGED <<cnt, pool>>
        /\ last' = [act |-> "Lookup", r |-> r, t |-> t, kind |-> kind, fail |-> fail, cancel |-> cancel,
                    res |-> IF ok THEN "ok" ELSE "fail"]

\* layernode.Create("use") -> LayerManager.use
Use(r, t) ==
    /\ cnt[r][t] = NoCnt \/ cnt[r][t] < MaxCnt
    /\ pool' = [pool EXCEPT ![r] = @ + 1]
    /\ cnt' = [cnt EXCEPT ![r][t] = IF @ = NoCnt THEN 1 ELSE @ + 1]
    /\ UNCHANGED <<layer, memo, out, rc, kids>>
    /\ last' = [act |-> "Use", r |-> r, t |-> t, res |-> "ok", n |-> cnt'[r][t]]

\* refnode.Rmdir -> LayerManager.release
Release(r, t) ==
    /\ cnt[r][t] = NoCnt \/ cnt[r][t] > -MaxNeg
    /\ pool' = [pool EXCEPT ![r] = IF @ > 0 THEN @ - 1 ELSE 0]       \* refPool.release, its error is ignored
    /\ IF cnt[r][t] = NoCnt
       THEN /\ UNCHANGED <<layer, cnt, memo, out, rc, kids>>           \* "not tracked"
            /\ last' = [act |-> "Release", r |-> r, t |-> t, res |-> "fail", n |-> 0]
       ELSE LET i     == cnt[r][t] - 1
                atz   == i <= 0                                         \* "no reference to this layer. release it."
                dropL == IF DropOnlyAtZero THEN atz ELSE TRUE           \* Done() and drop inside that branch only
                cnt1  == [cnt EXCEPT ![r][t] = IF atz /\ DeleteInnerCounter THEN NoCnt ELSE i]
                none  == \A u \in T : cnt1[r][u] = NoCnt                \* len(r.refcounter[ref]) == 0
                memo1 == IF atz /\ none /\ ResetMemoAtLastRelease
                         THEN [memo EXCEPT ![r] = [l \in Own(r) |-> "none"]] ELSE memo
                has   == layer[r][t]
            IN  /\ cnt' = cnt1
                /\ UNCHANGED rc
                /\ IF dropL /\ has
                   THEN /\ layer' = [layer EXCEPT ![r][t] = FALSE]     \* l.Done(); delete(r.layer[ref], toc)
                        /\ out' = [out EXCEPT ![r][t] = @ - 1]
                        /\ memo' = IF ForgetMemoOfReleased THEN [memo1 EXCEPT ![r][t] = "none"] ELSE memo1
                   ELSE /\ UNCHANGED <<layer, out>>
                        /\ memo' = memo1
                /\ LET res == IF dropL /\ ~has THEN "fail" ELSE "ok"   \* "... is not registered"
                       n   == IF dropL /\ ~has THEN 0 ELSE i
                   IN /\ last' = [act |-> "Release", r |-> r, t |-> t, res |-> res, n |-> n]
                      \* Rmdir: current == 0 -> the layer directory loses its children
                      /\ kids' = IF Fuse /\ res = "ok" /\ n = 0 THEN [kids EXCEPT ![r][t] = {}] ELSE kids

Next ==
    \/ \E r \in Refs : \E t \in Targets(r), k \in Kinds, f \in SUBSET Own(r), c \in BOOLEAN : Lookup(r, t, k, f, c)
    \/ \E r \in Refs : \E t \in Targets(r) : Use(r, t)
    \/ \E r \in Refs : \E t \in Targets(r) : Release(r, t)

Spec == Init /\ [][Next]_vars

----------------------------------------------------------------------------
(* Property C16. Every formula speaks about the observable part of the state *)
(* (layer, cnt, memo, out) and about last, so that the monitor can evaluate  *)
(* the same formulas on states recorded from the implementation.             *)

Tracked(c, r) == {t \in T : c[r][t] # NoCnt}
Uses(c, r, t) == IF c[r][t] = NoCnt \/ c[r][t] < 0 THEN 0 ELSE c[r][t]
RECURSIVE SumUses(_, _, _)
SumUses(c, r, S) == IF S = {} THEN 0 ELSE LET t == CHOOSE u \in S : TRUE IN Uses(c, r, t) + SumUses(c, r, S \ {t})
ImageUses(c, r) == SumUses(c, r, T)

\* the use count never goes negative
CountNonNegative == \A r \in Refs, t \in T : cnt[r][t] = NoCnt \/ cnt[r][t] >= 0

\* a cached layer is one whose handle has not been given back ...
HeldWhileCached == \A r \in Refs : \A t \in Own(r) : layer[r][t] => out[r][t] >= 1
\* ... and no call takes a layer away that still has uses after the call
NeverDoneWhileUsed ==
    [][\A r \in Refs : \A t \in Own(r) :
          (layer[r][t] /\ cnt'[r][t] # NoCnt /\ cnt'[r][t] >= 1) => (layer'[r][t] /\ out'[r][t] >= out[r][t])]_vars

\* every handle obtained from the resolver is either the cached layer or has been given back: nothing leaks,
\* nothing is given back twice
HandlesMatchLayers == \A r \in Refs : \A t \in Own(r) : out[r][t] = IF layer[r][t] THEN 1 ELSE 0

IsLayerLookup(l) == l.act = "Lookup" /\ l.kind \in {"diff", "blob"}

\* looking up a digest that no layer of the image has fails
UnknownDigestFails ==
    [][\A r \in Refs : (IsLayerLookup(last') /\ last'.r = r /\ ~IsOwn(r, last'.t)) => last'.res = "fail"]_vars

\* looking up a digest of the image succeeds whatever was used and released before, unless the registry fails for
\* that layer now or a REGISTRY failure of it is still remembered (the code keeps errors until the image is
\* released). A caller that gave up earlier is no excuse: a remembered "cancelled" must not make this lookup fail.
\* The answer to a caller that has given up itself is not constrained.
LookupSucceedsIffTocInImage ==
    [][\A r \in Refs :
         (IsLayerLookup(last') /\ last'.r = r /\ IsOwn(r, last'.t) /\ last'.t \notin last'.fail /\ ~last'.cancel
              /\ memo[r][last'.t] # "err")
           => last'.res = "ok"]_vars

\* what a successful lookup hands out is the cached layer, whose handle is still held
SuccessMeansCached ==
    [][\A r \in Refs : (IsLayerLookup(last') /\ last'.r = r /\ last'.res = "ok" /\ IsOwn(r, last'.t))
           => (layer'[r][last'.t] /\ out'[r][last'.t] >= 1)]_vars

\* releasing the last use of an image drops the layer, every counter and the whole resolve status of the image
LastReleaseDropsBookkeeping ==
    [][\A r \in Refs :
         (last'.act = "Release" /\ last'.r = r /\ cnt[r][last'.t] = 1 /\ ImageUses(cnt, r) = 1)
           => /\ Tracked(cnt', r) = {}
              /\ \A l \in Own(r) : memo'[r][l] = "none"
              /\ ~layer'[r][last'.t]
              /\ IsOwn(r, last'.t) => out'[r][last'.t] = 0]_vars

\* ... so that the next lookup resolves again (what LookupSucceedsIffTocInImage says for that situation, spelled out)
NextLookupResolvesAgain ==
    [][\A r \in Refs :
         (IsLayerLookup(last') /\ last'.r = r /\ IsOwn(r, last'.t) /\ last'.t \notin last'.fail /\ ~last'.cancel
              /\ ~layer[r][last'.t] /\ Tracked(cnt, r) = {} /\ memo[r][last'.t] # "err"
              /\ ~(Fuse /\ last'.kind \in kids[r][last'.t]))
           => (last'.res = "ok" /\ layer'[r][last'.t] /\ memo'[r][last'.t] = "ok" /\ out'[r][last'.t] = 1)]_vars

(* NOT claimed (the design does not have it, TLC shows a counterexample, see Store_mc_strict.cfg): after the last *)
(* release NO layer of the image is left. Layers that getLayer resolved speculatively and nobody used stay cached. *)
ImageFullyDropped ==
    [][\A r \in Refs :
         (last'.act = "Release" /\ last'.r = r /\ cnt[r][last'.t] = 1 /\ ImageUses(cnt, r) = 1)
           => \A l \in Own(r) : ~layer'[r][l] /\ out'[r][l] = 0]_vars

(* internal consistency (documents the design, not part of the property)    *)
TypeOK ==
    /\ \A r \in Refs, t \in T : layer[r][t] \in BOOLEAN /\ cnt[r][t] \in Int /\ kids[r][t] \subseteq Kinds
    /\ \A r \in Refs : \A l \in Own(r) : memo[r][l] \in {"none", "ok", "err", "cancelled"} /\ out[r][l] \in Nat /\ rc[r][l] \in BOOLEAN
    /\ \A r \in Refs : pool[r] \in Nat
\* only layers of the image are ever cached
OnlyOwnCached == \A r \in Refs, t \in T : layer[r][t] => IsOwn(r, t)
\* the inductive reason for LookupSucceedsIffTocInImage: a remembered success means the layer is still cached
\* with the detached context nothing of a caller's cancellation is ever remembered
NoCancelRemembered == \A r \in Refs : \A l \in Own(r) : memo[r][l] # "cancelled"
MemoOkMeansCached == \A r \in Refs : \A l \in Own(r) : memo[r][l] = "ok" => layer[r][l]
\* a tracked counter is positive
TrackedPositive == \A r \in Refs, t \in T : cnt[r][t] = NoCnt \/ cnt[r][t] >= 1
\* NOT an invariant of the design (release of an untracked layer still decrements the refPool counter of the image):
PoolMatchesUses == \A r \in Refs : pool[r] = ImageUses(cnt, r)

=============================================================================

\* 2 workers x 1 operation, <= 2 personality changes, reads of url and header as separate steps
CONSTANTS
    Procs = {"p1", "p2"}
    MaxOps = 1
    MaxEnv = 2
    Modes = {"direct", "redir"}
    AuthModes = {FALSE}
    HeadModes = {TRUE}
    HeaderReadUnderLock = FALSE
    RedirectDropsHeaders = TRUE
    StaleAuth = FALSE
INIT GenInit
NEXT GenNext
VIEW core
CHECK_DEADLOCK FALSE

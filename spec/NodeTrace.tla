----------------------------- MODULE NodeTrace -----------------------------
(* Conformance of recorded calls on real nodes with Node.tla.               *)
(* Input trace.ndjson, one event per call, traces separated by "Reset":     *)
(*   Reset        root, mode, src (array), digest, size, base, store        *)
(*   Readdir      errno, list: [{name, kind, ino, inohi}]  (with "." "..")  *)
(*   Lookup       n, errno, kind, ino, inohi, rdev, nlink                    *)
(*   Forget       n                                                          *)
(*   GetattrChild n, errno, kind, ino, inohi, rdev                           *)
(*   Getattr      errno, kind                                                *)
(*   Getxattr     k, errno, val        Listxattr  errno, keys (array)        *)
(*   Progress / Report                                                       *)
(*   Report       text                                                       *)
(*   StatLookup   errno, fname, dirino, fileino, inohi                        *)
(*   StatGetattr  errno, fileino                                              *)
(*   StatRead     errno, json, digest, size, fetched, err   (read through the *)
(*                statFile inode obtained by the last StatLookup)             *)
(* Inode numbers: the specification names the inode of an entry by the raw  *)
(* entry it comes from; the trace must exhibit a one-to-one correspondence  *)
(* between those names and the recorded numbers (inomap).                   *)
EXTENDS Node, Json, TLCExt

VARIABLES l, inomap, dg, sz
tvars == <<vars, l, inomap, dg, sz>>

TraceLog == ndJsonDeserialize("trace.ndjson")
Ev == TraceLog[l]
IsEvent(e) == l <= Len(TraceLog) /\ Ev.ev = e /\ l' = l + 1

Bind(pairs) ==
    LET m == inomap \cup pairs IN
    /\ \A p, q \in m : (p[1] = q[1]) <=> (p[2] = q[2])
    /\ inomap' = m
NoBind == inomap' = inomap

TraceInit ==
    /\ l = 1 /\ TLCSet(1, 0)
    /\ isRoot = TRUE /\ mode = "trusted" /\ src = {}
    /\ cached = FALSE /\ ents = {} /\ mem = Empty /\ fetched = 0 /\ reported = 0 /\ sfheld = FALSE
    /\ last = [act |-> "Init"]
    /\ inomap = {} /\ dg = "" /\ sz = 0

TraceReset ==
    /\ IsEvent("Reset")
    /\ isRoot' = Ev.root /\ mode' = Ev.mode /\ src' = SeqToSet(Ev.src)
    /\ cached' = FALSE /\ ents' = {} /\ mem' = Empty /\ fetched' = 0 /\ reported' = 0 /\ sfheld' = FALSE
    /\ last' = [act |-> "Init"]
    /\ inomap' = {} /\ dg' = Ev.digest /\ sz' = Ev.size

EvList == SeqToSet(Ev.list)
TraceReaddir ==
    /\ IsEvent("Readdir") /\ Readdir
    /\ Ev.errno = "OK"
    /\ {[name |-> e.name, kind |-> e.kind] : e \in EvList} = Proj(last'.list) \cup DotEnts
    /\ Len(Ev.list) = Cardinality(last'.list) + 2
    /\ Bind({<<e.ino, (CHOOSE r \in EvList : r.name = e.name).ino>> : e \in last'.list})
    /\ UNCHANGED <<dg, sz>>

TraceLookup ==
    /\ IsEvent("Lookup") /\ Lookup(Ev.n)
    /\ last'.errno = Ev.errno /\ last'.kind = Ev.kind
    /\ IF Ev.errno = "OK" THEN last'.rdev = Ev.rdev /\ last'.nlink = Ev.nlink /\ Bind({<<last'.ino, Ev.ino>>}) ELSE NoBind
    /\ UNCHANGED <<dg, sz>>

TraceForget == IsEvent("Forget") /\ Forget(Ev.n) /\ NoBind /\ UNCHANGED <<dg, sz>>

TraceGetattrChild ==
    /\ IsEvent("GetattrChild") /\ GetattrChild(Ev.n)
    /\ Ev.errno = "OK" /\ last'.kind = Ev.kind /\ last'.rdev = Ev.rdev /\ last'.nlink = Ev.nlink
    /\ Bind({<<last'.ino, Ev.ino>>})
    /\ UNCHANGED <<dg, sz>>

TraceGetattr == IsEvent("Getattr") /\ Getattr /\ Ev.errno = "OK" /\ Ev.kind = "dir" /\ NoBind /\ UNCHANGED <<dg, sz>>

TraceGetxattr ==
    /\ IsEvent("Getxattr") /\ Getxattr(Ev.k)
    /\ last'.errno = Ev.errno /\ last'.val = Ev.val
    /\ NoBind /\ UNCHANGED <<dg, sz>>

TraceListxattr ==
    /\ IsEvent("Listxattr") /\ Listxattr
    /\ Ev.errno = "OK" /\ SeqToSet(Ev.keys) = last'.keys /\ Len(Ev.keys) = Cardinality(last'.keys)
    /\ NoBind /\ UNCHANGED <<dg, sz>>

\* traces may use the state-file calls on any root (the generation restricts them to the empty root)
TraceStatScope == isRoot
TraceProgress ==
    /\ IsEvent("Progress") /\ TraceStatScope
    /\ fetched' = fetched + 1 /\ last' = [act |-> "Progress"]
    /\ UNCHANGED <<isRoot, mode, src, cached, ents, mem, reported, sfheld>> /\ NoBind /\ UNCHANGED <<dg, sz>>
TraceReport ==
    /\ IsEvent("Report") /\ TraceStatScope
    /\ reported' = reported + 1 /\ last' = [act |-> "Report", text |-> Ev.text]
    /\ Ev.text = ErrText(reported + 1)
    /\ UNCHANGED <<isRoot, mode, src, cached, ents, mem, fetched, sfheld>> /\ NoBind /\ UNCHANGED <<dg, sz>>
TraceStatLookup ==
    /\ IsEvent("StatLookup") /\ TraceStatScope
    /\ sfheld' = TRUE
    /\ last' = [act |-> "StatLookup", errno |-> Ev.errno, fname |-> Ev.fname]
    /\ StatNameOK(last', dg)
    /\ Bind({<<"state", Ev.dirino>>, <<"statfile", Ev.fileino>>})
    /\ UNCHANGED <<isRoot, mode, src, cached, ents, mem, fetched, reported>> /\ UNCHANGED <<dg, sz>>
TraceStatGetattr ==
    /\ IsEvent("StatGetattr") /\ TraceStatScope /\ sfheld
    /\ Ev.errno = "OK"
    /\ last' = [act |-> "StatGetattr", errno |-> Ev.errno]
    /\ Bind({<<"statfile", Ev.fileino>>})
    /\ UNCHANGED core /\ UNCHANGED <<dg, sz>>
TraceStatRead ==
    /\ IsEvent("StatRead") /\ TraceStatScope /\ sfheld
    /\ last' = [act |-> "StatRead", errno |-> Ev.errno, json |-> Ev.json, digest |-> Ev.digest,
                size |-> Ev.size, fetched |-> Ev.fetched, err |-> Ev.err]
    /\ StatOK(last', dg, sz, fetched, ErrText(reported))
    /\ NoBind
    /\ UNCHANGED core /\ UNCHANGED <<dg, sz>>

TraceNext ==
    \/ TraceReset \/ TraceReaddir \/ TraceLookup \/ TraceForget \/ TraceGetattrChild \/ TraceGetattr
    \/ TraceGetxattr \/ TraceListxattr \/ TraceProgress \/ TraceReport \/ TraceStatLookup \/ TraceStatGetattr \/ TraceStatRead

TraceSpec == TraceInit /\ [][TraceNext]_tvars

HighWater == IF l - 1 > TLCGet(1) THEN TLCSet(1, l - 1) ELSE TRUE
TraceAccepted ==
    IF TLCGet(1) = Len(TraceLog) THEN TRUE
    ELSE /\ PrintT("VREJECT " \o ToString(TLCGet(1)) \o " " \o ToString(Len(TraceLog)))
         /\ FALSE
=============================================================================

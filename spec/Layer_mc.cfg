\* exhaustive: 1 name, 3 holders, 4 Resolve calls, 2 faults
CONSTANTS
    Names = {"a"}
    NH = 3
    MaxR = 4
    MaxFault = 2
    MaxBreak = 1
    TrackFiles = FALSE
    Extras = TRUE
    SymBreak = FALSE
    ResolveLock = TRUE
    CloseWaitsForHolders = TRUE
    LayerKeepsBlobRef = TRUE
    CleanupOnFailure = TRUE
    IdentityEvict = TRUE
    CloseReleasesBlob = TRUE
    CloseFiles = TRUE
    StampOnlyOnSuccess = TRUE
    BlobReleasedOnCloseError = TRUE
INIT Init
NEXT Next
VIEW core
INVARIANTS HeldLayerServes AllReleasedAndEvictedFreesEverything UnusedBlobIsGone ClosedMeansGone NoOpenFilesAfterClose FailedResolveLeaksNothing RefsAccount LockOK CachedIsLive
PROPERTIES ReadWorks ReturnedIsCached NoDuplicateCreation ResolveAgainWorks CheckNotFooled
CHECK_DEADLOCK FALSE

#!/bin/sh
# Run once after a fresh restore (offline): syntax-check every TLA+ module and warm the Go build cache for the
# packages the drivers live in (race + verif tag), so that the quick checks only pay incremental builds.
cd "$(dirname "$0")" || exit 1
export GOFLAGS=-mod=mod GOPROXY=off GOTOOLCHAIN=auto
[ "$GOSUMDB" = off ] && unset GOSUMDB
rc=0
tmp=$(mktemp -d /tmp/verif-setup-XXXXXX)
cp spec/*.tla "$tmp"/
for f in "$tmp"/*.tla; do
  (cd "$tmp" && tla-sany "$(basename "$f")" >"$tmp/sany.out" 2>&1) || { echo "SANY FAILED: $f"; tail -20 "$tmp/sany.out"; rc=1; }
done
rm -rf "$tmp"
(cd /repo && go test -race -tags verif -count=1 -run '^$' ./util/... ./task/... ./cache/... ./snapshot/... ./fs/... ./store/... ./fusemanager/... ./metadata/... ./service/... ./nativeconverter/... >/dev/null 2>&1) || echo "warm root: some packages failed to build (checks will report)"
(cd /repo/estargz && go test -race -count=1 -run '^$' ./... >/dev/null 2>&1) || echo "warm estargz failed"
(cd /repo/cmd && go test -race -tags verif -count=1 -run '^$' ./containerd-stargz-grpc/db/... >/dev/null 2>&1) || echo "warm cmd failed"
exit $rc

//go:build verif

package resolver

import "github.com/containerd/containerd/v2/pkg/reference"

// VerifMultiCredsFuncs exposes multiCredsFuncs (the composition of credential functions used for every registry
// host built by RegistryHostsFromConfig) to the C18 driver in service/keychain/cri.
func VerifMultiCredsFuncs(ref reference.Spec, credsFuncs ...Credential) func(string) (string, string, error) {
	return multiCredsFuncs(ref, credsFuncs...)
}

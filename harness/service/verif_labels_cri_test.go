//go:build verif

package service

// C20 driver (Labels.tla): cases whose reader is sourceFromCRILabels ("cri") or the snapshotter's real reader
// chain sources(sourceFromCRILabels, FromDefaultLabels) ("chain"), as service.NewFileSystem wires it.
// The body is fs/source/verif_labels.go.

import (
	"os"
	"testing"

	"github.com/containerd/containerd/v2/core/remotes/docker"
	"github.com/containerd/containerd/v2/pkg/reference"
	"github.com/containerd/stargz-snapshotter/fs/source"
)

func TestVerifLabelsCRI(t *testing.T) {
	in, out := os.Getenv("VERIF_IN"), os.Getenv("VERIF_OUT")
	if in == "" || out == "" {
		t.Skip("VERIF_IN / VERIF_OUT not set")
	}
	hosts := func(reference.Spec) ([]docker.RegistryHost, error) { return nil, nil }
	readers := map[string]source.GetSources{
		"default": source.FromDefaultLabels(hosts),
		"cri":     sourceFromCRILabels(hosts),
		"chain":   sources(sourceFromCRILabels(hosts), source.FromDefaultLabels(hosts)),
	}
	if err := source.VerifRunLabelCases(in, out, readers); err != nil {
		t.Fatal(err)
	}
}

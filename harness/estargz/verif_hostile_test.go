//go:build verif

package estargz_test

// C04 driver for the estargz module (TocHostile.tla, Footer.tla). External test package: it may import the
// zstdchunked and externaltoc sub-packages next to estargz itself. It must not import util/verifhook (other module).
//
// TestVerifC04Parent  reads the cases TLC generated ($VERIF_IN), concretises each to real bytes, writes the blobs for the
//                     drivers of the other modules ($VERIF_BLOBS, ndjson with base64) and runs the entry points of this
//                     module in CHILD PROCESSES (crash isolation): a child announces every case and entry point in a
//                     progress file before it runs it; when a child dies (fatal stack overflow, out of memory) or makes
//                     no progress for the per-case deadline (killed), the parent attributes that outcome to the case and
//                     entry point in flight and starts a new child behind it.
// TestVerifC04Child   the child: runs the cases of its slice; panics are recovered per entry point and recorded.
// Outcome lines (ndjson, $VERIF_OUT): {case, ep, out: ok|error|panic|fatal|timeout, msg}. The driver decides nothing:
// TLC evaluates NoCrashNoHang on the lines (monitor) and the allowed outcomes of the reference (trace spec).

import (
	"archive/tar"
	"bytes"
	"compress/gzip"
	"crypto/sha256"
	"encoding/base64"
	"encoding/binary"
	"encoding/json"
	"fmt"
	"io"
	"os"
	"os/exec"
	"runtime/debug"
	"strconv"
	"strings"
	"sync"
	"syscall"
	"testing"
	"time"

	"github.com/containerd/stargz-snapshotter/estargz"
	"github.com/containerd/stargz-snapshotter/estargz/externaltoc"
	"github.com/containerd/stargz-snapshotter/estargz/zstdchunked"
)

type c04Num struct {
	Size  string `json:"size"`
	Off   string `json:"off"`
	Coff  string `json:"coff"`
	Csize string `json:"csize"`
	Ioff  string `json:"ioff"`
}

type c04Ent struct {
	N   string `json:"n"`
	K   string `json:"k"`
	L   string `json:"l"`
	Num c04Num `json:"num"`
	Dg  string `json:"dg"`
}

type c04Case struct {
	ID int `json:"id"`
	// hostile TOC
	Ents []c04Ent `json:"ents"`
	// footer case
	Kind string `json:"kind"`
	Blen string `json:"blen"`
	Mut  string `json:"mut"`
	Off  string `json:"off"`
	Len  string `json:"len"`
	Opt  string `json:"opt"`
	// hostile tar for the builder
	Tar []c04TarEnt `json:"tar"`
}

type c04TarEnt struct {
	N string `json:"n"`
	K string `json:"k"`
	L string `json:"l"`
}

type c04Blob struct {
	Case   int    `json:"case"`
	Blob   string `json:"blob"` // base64
	TocOpt int64  `json:"tocopt"`
	Names  []string `json:"names"`
	Zstd   bool   `json:"zstd"` // footer case: the stores also open it with the decompressors fs/layer registers (zstd:chunked)
}

var c04Zw *gzip.Writer

func c04Gzip(b []byte) []byte {
	var buf bytes.Buffer
	if c04Zw == nil {
		c04Zw, _ = gzip.NewWriterLevel(&buf, gzip.BestSpeed)
	} else {
		c04Zw.Reset(&buf)
	}
	c04Zw.Write(b)
	c04Zw.Close()
	return buf.Bytes()
}

func c04TocMember(js []byte) []byte {
	var tb bytes.Buffer
	tw := tar.NewWriter(&tb)
	tw.WriteHeader(&tar.Header{Typeflag: tar.TypeReg, Name: estargz.TOCTarName, Size: int64(len(js))})
	tw.Write(js)
	tw.Close()
	return c04Gzip(tb.Bytes())
}

func c04Footer51(tocOff int64) []byte {
	sub := fmt.Sprintf("%016xSTARGZ", tocOff)
	extra := []byte{'S', 'G', 0, 0}
	binary.LittleEndian.PutUint16(extra[2:4], uint16(len(sub)))
	return estargz.CreateGzipFooter(append(extra, sub...))
}

const c04Payload = "abcd"

func c04Val(s string, field string, p, blobSize int64) int64 {
	switch s {
	case "m1":
		return -1
	case "0":
		return 0
	case "1":
		return 1
	case "S":
		if field == "off" {
			return blobSize
		}
		return int64(len(c04Payload))
	case "P":
		return p
	case "big":
		return 1 << 62
	}
	return 0
}

// c04BuildToc concretises a hostile TOC: dummy member, one payload stream "abcd" at offset P, TOC member, footer.
func c04BuildToc(c c04Case) ([]byte, []string) {
	var blob bytes.Buffer
	blob.Write(c04Gzip([]byte("tar headers live here")))
	p := int64(blob.Len())
	blob.Write(c04Gzip([]byte(c04Payload)))
	tocOff := int64(blob.Len())
	dg := fmt.Sprintf("sha256:%x", sha256.Sum256([]byte(c04Payload)))
	build := func(blobSize int64) []byte {
		entries := []*estargz.TOCEntry{}
		for _, e := range c.Ents {
			te := &estargz.TOCEntry{Name: e.N, Type: e.K, LinkName: e.L, Mode: 0o644}
			if e.K == "reg" || e.K == "chunk" {
				te.Size = c04Val(e.Num.Size, "size", p, blobSize)
				te.Offset = c04Val(e.Num.Off, "off", p, blobSize)
				te.ChunkOffset = c04Val(e.Num.Coff, "coff", p, blobSize)
				te.ChunkSize = c04Val(e.Num.Csize, "csize", p, blobSize)
				te.InnerOffset = c04Val(e.Num.Ioff, "ioff", p, blobSize)
				switch e.Dg {
				case "valid":
					te.Digest, te.ChunkDigest = dg, dg
				case "malformed":
					te.Digest, te.ChunkDigest = "sha256:zz", "bogus"
				}
				if e.K == "chunk" {
					te.Size, te.Digest = 0, ""
				}
			}
			if e.K == "char" || e.K == "block" {
				te.DevMajor, te.DevMinor = 1, 2
			}
			entries = append(entries, te)
		}
		js, _ := json.Marshal(&estargz.JTOC{Version: 1, Entries: entries})
		return c04TocMember(js)
	}
	// the blob size appears inside the TOC ("S" as an offset): two passes reach a fixed point because the TOC member's
	// length does not depend on the digits' values only on their count; iterate a few times
	size := tocOff + int64(len(build(0))) + 51
	var toc []byte
	for i := 0; i < 4; i++ {
		toc = build(size)
		n := tocOff + int64(len(toc)) + 51
		if n == size {
			break
		}
		size = n
	}
	blob.Write(toc)
	blob.Write(c04Footer51(tocOff))
	var names []string
	for _, e := range c.Ents {
		names = append(names, e.N)
	}
	return blob.Bytes(), names
}

// c04BuildFooter concretises a footer case. Returns the blob and the WithTOCOffset value (0 = none).
func c04BuildFooter(c c04Case) ([]byte, int64) {
	var pre bytes.Buffer
	pre.Write(c04Gzip([]byte("tar headers live here")))
	pre.Write(c04Gzip([]byte(c04Payload)))
	tocOff := int64(pre.Len())
	js, _ := json.Marshal(&estargz.JTOC{Version: 1, Entries: []*estargz.TOCEntry{{Name: "a", Type: "dir"}}})
	pre.Write(c04TocMember(js))
	fsize := map[string]int{"estargz": 51, "legacy": 47, "zstd": 40, "ext": 46}[c.Kind]
	total := int64(pre.Len() + fsize)
	var off uint64
	hexs := ""
	switch c.Off {
	case "zero":
		off = 0
	case "small":
		off = 16
	case "near63":
		off = 1<<63 - 16
	case "inside":
		off = uint64(tocOff)
	case "size":
		off = uint64(total)
	case "beyond":
		off = uint64(total + 1000)
	case "max":
		off = 1<<63 - 1
		if c.Kind == "zstd" {
			off = 1<<64 - 1
		}
	case "nonhex":
		off = uint64(tocOff)
		hexs = "zzzzzzzzzzzzzzzz"
	}
	if hexs == "" {
		hexs = fmt.Sprintf("%016x", off)
	}
	var footer []byte
	if c.Kind == "zstd" {
		footer = make([]byte, 40)
		binary.LittleEndian.PutUint64(footer[0:8], off)
		ln := uint64(100)
		switch c.Len {
		case "zero":
			ln = 0
		case "wrap": // offset + length = 2^63: the sum leaves int64
			ln = 1<<63 - off
		case "max63":
			ln = 1<<63 - 1
		case "big62":
			ln = 1 << 62
		case "max64":
			ln = 1<<64 - 1
		default:
			if c.Off == "max" {
				ln = 1<<64 - 1
			}
		}
		binary.LittleEndian.PutUint64(footer[8:16], ln)  // compressed length of the manifest
		binary.LittleEndian.PutUint64(footer[16:24], ln) // uncompressed length
		binary.LittleEndian.PutUint64(footer[24:32], 1)
		copy(footer[32:40], []byte{0x47, 0x6e, 0x55, 0x6c, 0x49, 0x6e, 0x55, 0x78})
		if c.Mut == "zmagic" {
			footer[33] ^= 0xff
		}
	} else {
		var sub, ids []byte
		switch c.Kind {
		case "estargz":
			ids, sub = []byte{'S', 'G'}, []byte(hexs+"STARGZ")
		case "ext":
			ids, sub = []byte{'S', 'G'}, []byte("STARGZEXTERNALTOC")
		case "legacy":
			sub = []byte(hexs + "STARGZ")
		}
		sublen := len(sub)
		switch c.Mut {
		case "lenshort":
			sublen = 2
		case "lenlong":
			sublen = 4000
		case "subshort":
			sub = sub[:2] // LEN still announces the full subfield
		case "sgmagic":
			sub[len(sub)-1] ^= 0x20
		}
		var extra []byte
		if ids != nil {
			extra = append(extra, ids...)
			extra = append(extra, byte(sublen), byte(sublen>>8))
		}
		extra = append(extra, sub...)
		xlen := len(extra)
		switch c.Mut {
		case "xlen0":
			xlen, extra = 0, nil
		case "xlenshort":
			xlen, extra = 1, extra[:1]
		case "xlenlong":
			xlen = 60000
		}
		hdr := []byte{0x1f, 0x8b, 8, 4, 0, 0, 0, 0, 0, 255, byte(xlen), byte(xlen >> 8)}
		if c.Mut == "gzmagic" {
			hdr[1] = 0x8c
		}
		footer = append(hdr, extra...)
		footer = append(footer, 1, 0, 0, 0xff, 0xff, 0, 0, 0, 0, 0, 0, 0, 0)
		for len(footer) < fsize {
			footer = append(footer, 0)
		}
		footer = footer[:fsize]
	}
	var blob []byte
	switch c.Blen {
	case "0":
		blob = []byte{}
	case "1":
		blob = footer[len(footer)-1:]
	case "lt":
		blob = footer[1:]
	case "eq":
		blob = footer
	default:
		blob = append(pre.Bytes(), footer...)
	}
	var opt int64
	switch c.Opt {
	case "inside":
		opt = tocOff
	case "end":
		opt = int64(len(blob)) - 1
	case "beyond":
		opt = int64(len(blob)) + 10
	}
	return blob, opt
}

// ---------------------------------------------------------------------------------------------- entry points

type c04Rec struct {
	Case int    `json:"case"`
	Ep   string `json:"ep"`
	Out  string `json:"out"`
	Msg  string `json:"msg"`
}

type c04Child struct {
	progress *os.File
	out      *os.File
}

func (c *c04Child) run(id int, ep string, f func() error) {
	fmt.Fprintf(c.progress, "P %d %s\n", id, ep)
	rec := c04Rec{Case: id, Ep: ep, Out: "ok"}
	func() {
		defer func() {
			if r := recover(); r != nil {
				rec.Out, rec.Msg = "panic", fmt.Sprint(r)
			}
		}()
		if err := f(); err != nil {
			rec.Out, rec.Msg = "error", err.Error()
			if len(rec.Msg) > 160 {
				rec.Msg = rec.Msg[:160]
			}
		}
	}()
	b, _ := json.Marshal(rec)
	c.out.Write(append(b, '\n'))
}

func c04WalkReader(r *estargz.Reader, names []string) error {
	root, ok := r.Lookup("")
	if !ok {
		return fmt.Errorf("no root")
	}
	type item struct {
		e     *estargz.TOCEntry
		depth int
	}
	queue := []item{{root, 0}}
	n := 0
	for len(queue) > 0 && n < 400 {
		it := queue[0]
		queue = queue[1:]
		n++
		_ = it.e.Stat().Mode()
		_ = it.e.ModTime()
		_ = it.e.NextOffset()
		it.e.ForeachChild(func(base string, c *estargz.TOCEntry) bool {
			if _, ok := it.e.LookupChild(base); ok && it.depth < 6 {
				queue = append(queue, item{c, it.depth + 1})
			}
			return true
		})
	}
	seen := map[string]bool{}
	for _, name := range append([]string{"", "a", "a/b", "b"}, names...) {
		if seen[name] {
			continue
		}
		seen[name] = true
		e, ok := r.Lookup(name)
		for _, o := range []int64{-1, 0, 1, 3, 4, 1 << 62} {
			r.ChunkEntryForOffset(name, o)
		}
		if !ok {
			continue
		}
		_ = e
		for _, pre := range []bool{false, true} {
			var sr *io.SectionReader
			var err error
			if pre {
				sr, err = r.OpenFileWithPreReader(name, func(e *estargz.TOCEntry, r io.Reader) error {
					_, err := io.CopyN(io.Discard, r, 1<<16)
					if err == io.EOF {
						err = nil
					}
					return err
				})
			} else {
				sr, err = r.OpenFile(name)
			}
			if err != nil {
				continue
			}
			buf := make([]byte, 16)
			sr.ReadAt(buf, 0)
			sr.ReadAt(buf[:1], 3)
			if sr.Size() > 0 {
				sr.ReadAt(buf[:1], sr.Size()-1)
			}
		}
	}
	return nil
}

func c04Verify(r *estargz.Reader) error {
	v, err := r.VerifyTOC(r.TOCDigest())
	if err != nil {
		if _, err2 := r.Verifiers(); err2 != nil {
			return err2
		}
		return err
	}
	for _, name := range []string{"", "a", "a/b", "b"} {
		if e, ok := r.Lookup(name); ok {
			v.Verifier(e)
		}
		for _, o := range []int64{0, 3} {
			if ce, ok := r.ChunkEntryForOffset(name, o); ok {
				v.Verifier(ce)
			}
		}
	}
	return nil
}

func c04Section(b []byte) *io.SectionReader {
	return io.NewSectionReader(bytes.NewReader(b), 0, int64(len(b)))
}

func c04HostileTar(ents []c04TarEnt) []byte {
	var tb bytes.Buffer
	tw := tar.NewWriter(&tb)
	for _, e := range ents {
		h := &tar.Header{Name: e.N, Mode: 0o644}
		switch e.K {
		case "dir":
			h.Typeflag, h.Mode = tar.TypeDir, 0o755
		case "hardlink":
			h.Typeflag, h.Linkname = tar.TypeLink, e.L
		case "symlink":
			h.Typeflag, h.Linkname = tar.TypeSymlink, e.L
		default:
			h.Typeflag, h.Size = tar.TypeReg, 4
		}
		tw.WriteHeader(h)
		if h.Typeflag == tar.TypeReg {
			tw.Write([]byte(c04Payload))
		}
	}
	tw.Close()
	return tb.Bytes()
}

func (c *c04Child) doCase(cs c04Case) {
	switch {
	case cs.Tar != nil:
		raw := c04HostileTar(cs.Tar)
		var prio []string
		for _, e := range cs.Tar {
			prio = append(prio, e.N)
		}
		var built *estargz.Blob
		c.run(cs.ID, "estargz.Build", func() error {
			b, err := estargz.Build(c04Section(raw), estargz.WithPrioritizedFiles(prio), estargz.WithAllowPrioritizeNotFound(new([]string)))
			if err != nil {
				return err
			}
			built = b
			return nil
		})
		if built != nil {
			c.run(cs.ID, "estargz.Build.read+Open", func() error {
				defer built.Close()
				data, err := io.ReadAll(built)
				if err != nil {
					return err
				}
				r, err := estargz.Open(c04Section(data))
				if err != nil {
					return err
				}
				return c04WalkReader(r, prio)
			})
		}
	case cs.Kind != "":
		blob, opt := c04BuildFooter(cs)
		tail := func(n int) []byte {
			if len(blob) < n {
				return blob
			}
			return blob[len(blob)-n:]
		}
		ext := externaltoc.NewGzipDecompressor(func() ([]byte, error) { return nil, fmt.Errorf("no external TOC") })
		c.run(cs.ID, "parse:estargz", func() error { _, _, _, err := new(estargz.GzipDecompressor).ParseFooter(tail(51)); return err })
		c.run(cs.ID, "parse:legacy", func() error { _, _, _, err := new(estargz.LegacyGzipDecompressor).ParseFooter(tail(47)); return err })
		c.run(cs.ID, "parse:ext", func() error { _, _, _, err := ext.ParseFooter(tail(46)); return err })
		if len(blob) >= 40 { // documented precondition of this parser is unclear; the callers guarantee FooterSize bytes only via Open
			c.run(cs.ID, "parse:zstd", func() error { _, _, _, err := new(zstdchunked.Decompressor).ParseFooter(tail(40)); return err })
		}
		c.run(cs.ID, "estargz.OpenFooter", func() error { _, _, err := estargz.OpenFooter(c04Section(blob)); return err })
		var opts []estargz.OpenOption
		if opt != 0 {
			opts = append(opts, estargz.WithTOCOffset(opt))
		}
		c.run(cs.ID, "open", func() error { _, err := estargz.Open(c04Section(blob), opts...); return err })
		c.run(cs.ID, "open+zstd+ext", func() error {
			_, err := estargz.Open(c04Section(blob), append(opts, estargz.WithDecompressors(new(zstdchunked.Decompressor), ext))...)
			return err
		})
	default:
		blob, names := c04BuildToc(cs)
		var r *estargz.Reader
		c.run(cs.ID, "open", func() error {
			rr, err := estargz.Open(c04Section(blob))
			if err != nil {
				return err
			}
			r = rr
			return nil
		})
		if r != nil {
			c.run(cs.ID, "estargz.walk+read", func() error { return c04WalkReader(r, names) })
			c.run(cs.ID, "estargz.verify", func() error { c04Verify(r); return nil })
		}
	}
}

func c04LoadCases(t *testing.T) []c04Case {
	raw, err := os.ReadFile(os.Getenv("VERIF_IN"))
	if err != nil {
		t.Fatal(err)
	}
	var cases []c04Case
	if err := json.Unmarshal(raw, &cases); err != nil {
		t.Fatal(err)
	}
	return cases
}

func TestVerifC04Child(t *testing.T) {
	if os.Getenv("VERIF_C04_PROGRESS") == "" {
		t.Skip("child of TestVerifC04Parent")
	}
	debug.SetMaxStack(64 << 20) // a runaway recursion is fatal after 64 MiB instead of 1 GiB: same verdict, much sooner
	var lim syscall.Rlimit
	lim.Cur, lim.Max = 8<<30, 8<<30
	syscall.Setrlimit(syscall.RLIMIT_AS, &lim)
	cases := c04LoadCases(t)
	from, _ := strconv.Atoi(os.Getenv("VERIF_C04_FROM"))
	to, _ := strconv.Atoi(os.Getenv("VERIF_C04_TO"))
	progress, err := os.OpenFile(os.Getenv("VERIF_C04_PROGRESS"), os.O_APPEND|os.O_CREATE|os.O_WRONLY, 0o644)
	if err != nil {
		t.Fatal(err)
	}
	out, err := os.OpenFile(os.Getenv("VERIF_C04_OUT"), os.O_APPEND|os.O_CREATE|os.O_WRONLY, 0o644)
	if err != nil {
		t.Fatal(err)
	}
	ch := &c04Child{progress, out}
	for i := from; i < to; i++ {
		fmt.Fprintf(progress, "B %d\n", i)
		ch.doCase(cases[i])
		fmt.Fprintf(progress, "E %d\n", i)
	}
	if to-from == 1 {
		time.Sleep(150 * time.Millisecond) // a probe of one case: give a goroutine that is about to panic the time to
	}
}

// c04TopFunc names the function that occurs most often in a crash dump (the one that recursed).
func c04TopFunc(dump string) string {
	count := map[string]int{}
	best := "?"
	for _, ln := range strings.Split(dump, "\n") {
		if !strings.HasPrefix(ln, "github.com/") && !strings.HasPrefix(ln, "go.etcd.io/") {
			continue
		}
		f := ln
		if i := strings.LastIndex(f, "("); i > 0 {
			f = f[:i]
		}
		f = strings.TrimPrefix(f, "github.com/containerd/stargz-snapshotter/")
		count[f]++
		if count[f] > count[best] {
			best = f
		}
	}
	return best
}

// c04RunSlice runs cases [from,to) in child processes; returns the outcome lines of crashed / hung entry points.
func c04RunSlice(w, from, to int, ids []int, outPath string, deadline time.Duration, maxCrash int) (extra []c04Rec, skipped int) {
	return c04RunSliceOpt(w, from, to, ids, outPath, deadline, maxCrash, false)
}

func c04RunSliceOpt(w, from, to int, ids []int, outPath string, deadline time.Duration, maxCrash int, single bool) (extra []c04Rec, skipped int) {
	from0 := from
	progPath := fmt.Sprintf("%s.progress%d", outPath, w)
	partPath := fmt.Sprintf("%s.part%d", outPath, w)
	crashes := 0
	for from < to {
		os.Remove(progPath)
		cmd := exec.Command(os.Args[0], "-test.run=^TestVerifC04Child$", "-test.timeout=0")
		cmd.Env = append(os.Environ(), "VERIF_C04_FROM="+strconv.Itoa(from), "VERIF_C04_TO="+strconv.Itoa(to),
			"VERIF_C04_PROGRESS="+progPath, "VERIF_C04_OUT="+partPath)
		var stderr bytes.Buffer
		cmd.Stdout, cmd.Stderr = &stderr, &stderr
		if err := cmd.Start(); err != nil {
			return append(extra, c04Rec{Case: -1, Ep: "driver", Out: "fatal", Msg: err.Error()}), to - from
		}
		done := make(chan error, 1)
		go func() { done <- cmd.Wait() }()
		var werr error
		hung := false
		lastSize, lastChange := int64(-1), time.Now()
	wait:
		for {
			select {
			case werr = <-done:
				break wait
			case <-time.After(200 * time.Millisecond):
				if st, err := os.Stat(progPath); err == nil && st.Size() != lastSize {
					lastSize, lastChange = st.Size(), time.Now()
				} else if time.Since(lastChange) > deadline && (lastSize >= 0 || time.Since(lastChange) > deadline+3*time.Minute) {
					// (a child that has not announced anything yet is still loading the cases: not a verdict about a case)
					hung = true
					cmd.Process.Kill()
					werr = <-done
					break wait
				}
			}
		}
		if werr == nil && !hung {
			break
		}
		// which case / entry point was in flight?
		idx, ep := from, "?"
		if raw, err := os.ReadFile(progPath); err == nil {
			for _, ln := range strings.Split(string(raw), "\n") {
				f := strings.Fields(ln)
				if len(f) >= 2 && f[0] == "B" {
					idx, _ = strconv.Atoi(f[1])
					ep = "?"
				} else if len(f) >= 3 && f[0] == "P" {
					ep = f[2]
				}
			}
		}
		msg := stderr.String()
		top := c04TopFunc(msg)
		if i := strings.Index(msg, "fatal error:"); i >= 0 {
			msg = msg[i:]
		} else if i := strings.Index(msg, "panic:"); i >= 0 {
			msg = msg[i:]
		}
		if j := strings.Index(msg, "\n"); j >= 0 {
			// keep the first line and the first frames
			lines := strings.Split(msg, "\n")
			if len(lines) > 14 {
				lines = lines[:14]
			}
			msg = strings.Join(lines, " | ")
		}
		if len(msg) > 600 {
			msg = msg[:600]
		}
		msg = "in " + top + ": " + msg
		outc := "fatal"
		if hung {
			outc = "timeout"
		}
		// A panicking goroutine takes a moment to bring the process down while the others keep running, so the case
		// in flight may be one behind the culprit: run the in-flight case and its predecessor alone and blame the one
		// that reproduces (the in-flight one if neither does).
		blame := idx
		if !single && !hung {
			for _, cand := range []int{idx, idx - 1} {
				if cand < 0 || cand < from0 {
					continue
				}
				if ex, _ := c04RunSliceOpt(1000+w, cand, cand+1, ids, outPath+".probe", deadline, 1, true); len(ex) > 0 {
					blame, ep = cand, ex[0].Ep
					break
				}
			}
		}
		extra = append(extra, c04Rec{Case: ids[blame], Ep: ep, Out: outc, Msg: msg})
		from = idx + 1
		crashes++
		if crashes >= maxCrash {
			return extra, to - from
		}
	}
	return extra, 0
}

func TestVerifC04Parent(t *testing.T) {
	cases := c04LoadCases(t)
	if bp := os.Getenv("VERIF_BLOBS"); bp != "" {
		f, err := os.Create(bp)
		if err != nil {
			t.Fatal(err)
		}
		for _, cs := range cases {
			var b c04Blob
			switch {
			case cs.Tar != nil:
				continue
			case cs.Kind != "":
				blob, opt := c04BuildFooter(cs)
				b = c04Blob{Case: cs.ID, Blob: base64.StdEncoding.EncodeToString(blob), TocOpt: opt, Zstd: true}
			default:
				blob, names := c04BuildToc(cs)
				b = c04Blob{Case: cs.ID, Blob: base64.StdEncoding.EncodeToString(blob), Names: names}
			}
			line, _ := json.Marshal(b)
			f.Write(append(line, '\n'))
		}
		f.Close()
	}
	outPath := os.Getenv("VERIF_OUT")
	workers, _ := strconv.Atoi(os.Getenv("VERIF_C04_WORKERS"))
	if workers <= 0 {
		workers = 8
	}
	deadline := 20 * time.Second
	if d, err := time.ParseDuration(os.Getenv("VERIF_C04_DEADLINE")); err == nil {
		deadline = d
	}
	ids := make([]int, len(cases))
	for i, c := range cases {
		ids[i] = c.ID
	}
	var mu sync.Mutex
	var extra []c04Rec
	skipped := 0
	var wg sync.WaitGroup
	per := (len(cases) + workers - 1) / workers
	for w := 0; w < workers; w++ {
		from, to := w*per, (w+1)*per
		if to > len(cases) {
			to = len(cases)
		}
		if from >= to {
			continue
		}
		wg.Add(1)
		go func(w, from, to int) {
			defer wg.Done()
			ex, sk := c04RunSlice(w, from, to, ids, outPath, deadline, 25)
			mu.Lock()
			extra = append(extra, ex...)
			skipped += sk
			mu.Unlock()
		}(w, from, to)
	}
	wg.Wait()
	out, err := os.Create(outPath)
	if err != nil {
		t.Fatal(err)
	}
	for w := 0; w < workers; w++ {
		if raw, err := os.ReadFile(fmt.Sprintf("%s.part%d", outPath, w)); err == nil {
			out.Write(raw)
		}
	}
	for _, r := range extra {
		b, _ := json.Marshal(r)
		out.Write(append(b, '\n'))
	}
	b, _ := json.Marshal(map[string]any{"case": 0, "ep": "driver", "out": "ok", "msg": fmt.Sprintf("skipped=%d", skipped)})
	out.Write(append(b, '\n'))
	out.Close()
}

//go:build verif

// Independent reader of eStargz / zstd:chunked / external-TOC blobs, written from docs/estargz.md
// (and the zstd frame format, RFC 8878) - it does NOT use estargz.Open, estargz.Unpack or any
// Decompressor of the module under test. Shared by the C14 (Sort) and C03 (Writer) drivers.
//
// The reader only observes: footer -> TOC offset -> TOC JSON; member / frame boundaries by decoding one
// gzip member / zstd frame at a time; archive/tar over the concatenated decompression with byte positions.
// It never judges; whatever it cannot read is returned as an error and becomes an "unreadable" observation.
package estargz_test

import (
	"archive/tar"
	"bytes"
	"compress/gzip"
	"crypto/sha256"
	"encoding/binary"
	"encoding/hex"
	"encoding/json"
	"fmt"
	"io"
	"strconv"

	"github.com/klauspost/compress/zstd"
)

// vTOCEntry: the TOCEntry fields of docs/estargz.md that the checks use.
type vTOCEntry struct {
	Name        string `json:"name"`
	Type        string `json:"type"`
	Size        int64  `json:"size"`
	LinkName    string `json:"linkName"`
	ModTime3339 string `json:"modtime"`
	Mode        int64  `json:"mode"`
	UID         int    `json:"uid"`
	GID         int    `json:"gid"`
	Offset      int64  `json:"offset"`
	InnerOffset int64  `json:"innerOffset"`
	ChunkOffset int64  `json:"chunkOffset"`
	ChunkSize   int64  `json:"chunkSize"`
	Digest      string `json:"digest"`
	ChunkDigest string `json:"chunkDigest"`
}

type vTOC struct {
	Version int         `json:"version"`
	Entries []vTOCEntry `json:"entries"`
}

// vMember is one gzip member / zstd frame of the payload area.
type vMember struct {
	Start, End   int64 // compressed byte range [Start, End) in the blob
	UStart, UEnd int64 // range of the concatenated decompression it produces
}

// vTarEntry is one entry of the decompressed tar with the position of its header and payload.
type vTarEntry struct {
	Name, Type, Link string
	Typeflag         byte
	Size             int64
	Mode             int64
	UID, GID         int
	ModTime          int64 // unix seconds
	HdrStart         int64 // uncompressed offset of the first header block
	DataStart        int64 // uncompressed offset of the payload
	ContentSHA       string
}

type vBlob struct {
	Scheme      string
	Members     []vMember // payload members in order (TOC member and footer excluded)
	Payload     []byte    // concatenated decompression of Members
	TOCOffset   int64     // from the footer; -1 for external TOC
	PayloadEnd  int64     // where the payload members end
	TOCJSON     []byte
	TOC         vTOC
	TOCMemberU  []byte // gzip scheme: decompression of the TOC member (a tar with stargz.index.json), part of the DiffID
	Entries     []vTarEntry
	TarEndsAt   int64 // position in Payload where archive/tar stopped (end-of-archive or EOF)
	FooterBytes []byte
}

func sha(b []byte) string { h := sha256.Sum256(b); return "sha256:" + hex.EncodeToString(h[:]) }

// ---- footers (docs/estargz.md "Footer", "external TOC"; zstd:chunked: 40 bytes in a skippable frame)

func parseGzipFooter51(f []byte) (int64, error) {
	if len(f) != 51 {
		return 0, fmt.Errorf("footer length %d", len(f))
	}
	if f[0] != 0x1f || f[1] != 0x8b || f[2] != 8 || f[3]&4 == 0 {
		return 0, fmt.Errorf("footer: not a gzip header with FEXTRA")
	}
	if binary.LittleEndian.Uint16(f[10:12]) != 26 || f[12] != 'S' || f[13] != 'G' || binary.LittleEndian.Uint16(f[14:16]) != 22 {
		return 0, fmt.Errorf("footer: bad extra field framing")
	}
	sub := string(f[16:38])
	if sub[16:] != "STARGZ" {
		return 0, fmt.Errorf("footer: no STARGZ magic")
	}
	off, err := strconv.ParseInt(sub[:16], 16, 64)
	if err != nil {
		return 0, fmt.Errorf("footer: offset: %v", err)
	}
	return off, nil
}

func parseExternalFooter46(f []byte) error {
	if len(f) != 46 {
		return fmt.Errorf("footer length %d", len(f))
	}
	if f[0] != 0x1f || f[1] != 0x8b || f[2] != 8 || f[3]&4 == 0 {
		return fmt.Errorf("footer: not a gzip header with FEXTRA")
	}
	if binary.LittleEndian.Uint16(f[10:12]) != 21 || f[12] != 'S' || f[13] != 'G' || binary.LittleEndian.Uint16(f[14:16]) != 17 ||
		string(f[16:33]) != "STARGZEXTERNALTOC" {
		return fmt.Errorf("footer: bad external-TOC extra field")
	}
	return nil
}

// ---- one member / frame at a time

func gunzipOne(b []byte) (out []byte, consumed int, err error) {
	br := bytes.NewReader(b) // an io.ByteReader: compress/flate then reads exactly the member
	zr, err := gzip.NewReader(br)
	if err != nil {
		return nil, 0, err
	}
	zr.Multistream(false)
	out, err = io.ReadAll(zr)
	if err != nil {
		return nil, 0, err
	}
	return out, len(b) - br.Len(), nil
}

// zstdFrameLen returns the length of the frame (normal or skippable) at the start of b (RFC 8878, 3.1).
func zstdFrameLen(b []byte) (n int, skippable bool, err error) {
	if len(b) < 8 {
		return 0, false, fmt.Errorf("short frame")
	}
	magic := binary.LittleEndian.Uint32(b)
	if magic&0xFFFFFFF0 == 0x184D2A50 {
		sz := int(binary.LittleEndian.Uint32(b[4:]))
		if 8+sz > len(b) {
			return 0, true, fmt.Errorf("skippable frame exceeds blob")
		}
		return 8 + sz, true, nil
	}
	if magic != 0xFD2FB528 {
		return 0, false, fmt.Errorf("not a zstd frame: %#x", magic)
	}
	fhd := b[4]
	p := 5
	single := fhd&0x20 != 0
	if !single {
		p++ // window descriptor
	}
	p += []int{0, 1, 2, 4}[fhd&3]
	switch fhd >> 6 {
	case 0:
		if single {
			p++
		}
	case 1:
		p += 2
	case 2:
		p += 4
	case 3:
		p += 8
	}
	for {
		if p+3 > len(b) {
			return 0, false, fmt.Errorf("truncated block header")
		}
		bh := uint32(b[p]) | uint32(b[p+1])<<8 | uint32(b[p+2])<<16
		p += 3
		last, typ, size := bh&1 != 0, (bh>>1)&3, int(bh>>3)
		switch typ {
		case 0, 2:
			p += size
		case 1:
			p++
		default:
			return 0, false, fmt.Errorf("reserved block type")
		}
		if p > len(b) {
			return 0, false, fmt.Errorf("truncated block")
		}
		if last {
			break
		}
	}
	if fhd&4 != 0 {
		p += 4
	}
	if p > len(b) {
		return 0, false, fmt.Errorf("truncated checksum")
	}
	return p, false, nil
}

func unzstdOne(frame []byte) ([]byte, error) {
	d, err := zstd.NewReader(bytes.NewReader(frame))
	if err != nil {
		return nil, err
	}
	defer d.Close()
	return io.ReadAll(d)
}

// ---- tar with positions

type posReader struct {
	r io.Reader
	n int64
}

func (p *posReader) Read(b []byte) (int, error) { n, err := p.r.Read(b); p.n += int64(n); return n, err }

func typeName(tf byte) string {
	switch tf {
	case tar.TypeDir:
		return "dir"
	case tar.TypeReg:
		return "reg"
	case tar.TypeLink:
		return "link"
	case tar.TypeSymlink:
		return "symlink"
	case tar.TypeChar:
		return "char"
	case tar.TypeBlock:
		return "block"
	case tar.TypeFifo:
		return "fifo"
	case tar.TypeXGlobalHeader:
		return "xglobal"
	}
	return fmt.Sprintf("type-%d", tf)
}

func readTarPositions(payload []byte) (ents []vTarEntry, endsAt int64, err error) {
	pr := &posReader{r: bytes.NewReader(payload)}
	tr := tar.NewReader(pr)
	for {
		before := pr.n
		h, err := tr.Next()
		if err == io.EOF {
			return ents, pr.n, nil
		}
		if err != nil {
			return ents, pr.n, err
		}
		dataStart := pr.n
		data, err := io.ReadAll(tr)
		if err != nil {
			return ents, pr.n, err
		}
		// the previous entry's padding is consumed by Next; the header starts at the next 512 boundary
		hs := (before + 511) / 512 * 512
		ents = append(ents, vTarEntry{Name: h.Name, Type: typeName(h.Typeflag), Typeflag: h.Typeflag, Link: h.Linkname, Size: h.Size,
			Mode: h.Mode, UID: h.Uid, GID: h.Gid, ModTime: h.ModTime.Unix(), HdrStart: hs, DataStart: dataStart, ContentSHA: sha(data)})
	}
}

// ---- the whole blob

// parseBlob reads a blob of the given scheme ("gzip", "zstd", "external"); externalTOC is the separately
// stored TOC (a gzip member holding a tar with stargz.index.json) for the external scheme.
func parseBlob(blob []byte, scheme string, externalTOC []byte) (*vBlob, error) {
	vb := &vBlob{Scheme: scheme}
	var tocMember []byte
	switch scheme {
	case "gzip":
		if len(blob) < 51 {
			return nil, fmt.Errorf("blob shorter than the footer")
		}
		vb.FooterBytes = blob[len(blob)-51:]
		off, err := parseGzipFooter51(vb.FooterBytes)
		if err != nil {
			return nil, err
		}
		if off < 0 || off > int64(len(blob)-51) {
			return nil, fmt.Errorf("TOC offset %d outside the blob", off)
		}
		vb.TOCOffset, vb.PayloadEnd = off, off
		tocMember = blob[off : len(blob)-51]
	case "external":
		if len(blob) < 46 {
			return nil, fmt.Errorf("blob shorter than the footer")
		}
		vb.FooterBytes = blob[len(blob)-46:]
		if err := parseExternalFooter46(vb.FooterBytes); err != nil {
			return nil, err
		}
		vb.TOCOffset, vb.PayloadEnd = -1, int64(len(blob)-46)
		tocMember = externalTOC
	case "zstd":
		if len(blob) < 48 {
			return nil, fmt.Errorf("blob shorter than the footer")
		}
		vb.FooterBytes = blob[len(blob)-40:]
		f := vb.FooterBytes
		if !bytes.Equal(f[32:40], []byte{0x47, 0x6e, 0x55, 0x6c, 0x49, 0x6e, 0x55, 0x78}) {
			return nil, fmt.Errorf("footer: no zstd:chunked magic")
		}
		off := int64(binary.LittleEndian.Uint64(f[0:8]))
		clen := int64(binary.LittleEndian.Uint64(f[8:16]))
		ulen := int64(binary.LittleEndian.Uint64(f[16:24]))
		if off < 8 || off+clen > int64(len(blob)-48) {
			return nil, fmt.Errorf("TOC range %d+%d outside the blob", off, clen)
		}
		vb.TOCOffset, vb.PayloadEnd = off, off-8
		j, err := unzstdOne(blob[off : off+clen])
		if err != nil {
			return nil, fmt.Errorf("TOC frame: %v", err)
		}
		if int64(len(j)) != ulen {
			return nil, fmt.Errorf("TOC length %d, footer says %d", len(j), ulen)
		}
		vb.TOCJSON = j
	default:
		return nil, fmt.Errorf("unknown scheme %q", scheme)
	}
	if scheme != "zstd" {
		u, n, err := gunzipOne(tocMember)
		if err != nil {
			return nil, fmt.Errorf("TOC member: %v", err)
		}
		if n != len(tocMember) {
			return nil, fmt.Errorf("TOC member is %d bytes, %d bytes lie between TOC offset and footer", n, len(tocMember))
		}
		vb.TOCMemberU = u
		tr := tar.NewReader(bytes.NewReader(u))
		h, err := tr.Next()
		if err != nil {
			return nil, fmt.Errorf("TOC tar: %v", err)
		}
		if h.Name != "stargz.index.json" {
			return nil, fmt.Errorf("TOC tar entry is named %q", h.Name)
		}
		if vb.TOCJSON, err = io.ReadAll(tr); err != nil {
			return nil, err
		}
		if _, err := tr.Next(); err != io.EOF {
			return nil, fmt.Errorf("TOC entry is not the last tar entry: %v", err)
		}
	}
	if err := json.Unmarshal(vb.TOCJSON, &vb.TOC); err != nil {
		return nil, fmt.Errorf("TOC JSON: %v", err)
	}
	// payload members
	var payload bytes.Buffer
	for p := int64(0); p < vb.PayloadEnd; {
		var out []byte
		var n int
		var err error
		if scheme == "zstd" {
			var skip bool
			n, skip, err = zstdFrameLen(blob[p:vb.PayloadEnd])
			if err == nil && !skip {
				out, err = unzstdOne(blob[p : p+int64(n)])
			}
		} else {
			out, n, err = gunzipOne(blob[p:vb.PayloadEnd])
		}
		if err != nil {
			return nil, fmt.Errorf("member at %d: %v", p, err)
		}
		if n <= 0 {
			return nil, fmt.Errorf("member at %d consumed nothing", p)
		}
		vb.Members = append(vb.Members, vMember{Start: p, End: p + int64(n), UStart: int64(payload.Len()), UEnd: int64(payload.Len() + len(out))})
		payload.Write(out)
		p += int64(n)
	}
	vb.Payload = payload.Bytes()
	var err error
	vb.Entries, vb.TarEndsAt, err = readTarPositions(vb.Payload)
	if err != nil {
		return nil, fmt.Errorf("decompressed payload is not a tar: %v", err)
	}
	return vb, nil
}

// ---- observed layout in the shape of the specifications (Sort.tla lay / Writer.tla)

type vSeg struct {
	I int   `json:"i"` // 1-based index of the entry in the decompressed tar
	O int64 `json:"o"` // offset in the file
	N int64 `json:"n"` // length
	U int64 `json:"u"` // uncompressed offset inside the member
}

type vStream struct {
	S    int64  `json:"s"`
	E    int64  `json:"e"`
	Segs []vSeg `json:"segs"`
}

type vTocRow struct {
	I     int   `json:"i"` // 1-based index of the tar entry with this exact name (0: none)
	O     int64 `json:"o"` // chunkOffset
	N     int64 `json:"n"` // chunk length: chunkSize, or to the end of the file if chunkSize is 0 (docs/estargz.md)
	Off   int64 `json:"off"`
	Inner int64 `json:"inner"`
}

// dataStreams: for every payload member the file-payload pieces it holds, cut at multiples of chunk
// (chunk is an input option, not a decision). Members without file payload are left out.
func (vb *vBlob) dataStreams(chunk int64) []vStream {
	res := []vStream{}
	for _, m := range vb.Members {
		st := vStream{S: m.Start, E: m.End, Segs: []vSeg{}}
		for k, e := range vb.Entries {
			if e.Type != "reg" || e.Size == 0 {
				continue
			}
			lo, hi := max(m.UStart, e.DataStart), min(m.UEnd, e.DataStart+e.Size)
			for lo < hi {
				fo := lo - e.DataStart
				end := hi
				if chunk > 0 {
					end = min(hi, e.DataStart+(fo/chunk+1)*chunk)
				}
				st.Segs = append(st.Segs, vSeg{I: k + 1, O: fo, N: end - lo, U: lo - m.UStart})
				lo = end
			}
		}
		if len(st.Segs) > 0 {
			res = append(res, st)
		}
	}
	return res
}

func (vb *vBlob) tocRows() []vTocRow {
	idx := map[string]int{}
	size := map[string]int64{}
	for k, e := range vb.Entries {
		idx[e.Name] = k + 1
	}
	for _, t := range vb.TOC.Entries {
		if t.Type == "reg" {
			size[t.Name] = t.Size
		}
	}
	rows := []vTocRow{}
	for _, t := range vb.TOC.Entries {
		if !(t.Type == "chunk" || (t.Type == "reg" && t.Size > 0)) {
			continue
		}
		n := t.ChunkSize
		if n == 0 {
			n = size[t.Name] - t.ChunkOffset
		}
		rows = append(rows, vTocRow{I: idx[t.Name], O: t.ChunkOffset, N: n, Off: t.Offset, Inner: t.InnerOffset})
	}
	return rows
}

//go:build verif

// C03 driver (Writer.tla): runs the real estargz.Build / NewWriter*+AppendTar / AppendTarLossLess on model
// inputs, reads the produced blob back with the INDEPENDENT reader of verif_layout_test.go (written from
// docs/estargz.md, not estargz.Open) and records the observed layout: member boundaries, uncompressed
// member lengths, TOC rows, and SHA-256 content ids of (a) the bytes found at (offset, innerOffset, length),
// (b) the bytes of the input file the row claims, (c) the TOC's own chunk digest; DiffID / TOC digest as
// reported next to the hashes of what is really there. Nothing is judged here.
package estargz_test

import (
	"archive/tar"
	"bufio"
	"bytes"
	"compress/gzip"
	"encoding/json"
	"fmt"
	"io"
	"os"
	"runtime"
	"strings"
	"sync"
	"testing"
	"time"

	"github.com/containerd/stargz-snapshotter/estargz"
	"github.com/containerd/stargz-snapshotter/estargz/externaltoc"
	"github.com/containerd/stargz-snapshotter/estargz/zstdchunked"
	"github.com/klauspost/compress/zstd"
)

// wMeta: the tar header metadata that has to survive (Writer.tla Meta)
type wMeta struct {
	Mode  int64 `json:"mode"`
	UID   int   `json:"uid"`
	GID   int   `json:"gid"`
	Mtime int64 `json:"mtime,string"` // unix seconds (as a string in JSON: TLC integers are 32 bit); 0 = the epoch = none
}

type wEnt struct {
	Name string `json:"name"`
	Type string `json:"type"`
	Link string `json:"link"`
	Size int64  `json:"size"`
	C    string `json:"c"` // content id
	Meta wMeta  `json:"meta"`
}

// buildTarMeta materialises the model input with its metadata. The content of a file depends on
// (name, size, mode): a repeated name with other metadata also has other content.
func contentOf(e wEnt) []byte {
	if e.Type != "reg" {
		return []byte{}
	}
	return selfDescribing(fmt.Sprintf("%s@%o", e.Name, e.Meta.Mode), e.Size)
}

func buildTarMeta(ents []wEnt) ([]byte, error) {
	var buf bytes.Buffer
	tw := tar.NewWriter(&buf)
	for _, e := range ents {
		h := &tar.Header{Name: e.Name, Mode: e.Meta.Mode, Uid: e.Meta.UID, Gid: e.Meta.GID, Format: tar.FormatUSTAR}
		if e.Meta.Mtime != 0 {
			h.ModTime = time.Unix(e.Meta.Mtime, 0)
		}
		if e.Meta.Mtime < 0 || e.Meta.Mtime > 0o77777777777 {
			h.Format = tar.FormatPAX // a time before the epoch or beyond 11 octal digits needs a PAX record
		}
		switch e.Type {
		case "dir":
			h.Typeflag = tar.TypeDir
		case "reg":
			h.Typeflag, h.Size = tar.TypeReg, e.Size
		case "link":
			h.Typeflag, h.Linkname = tar.TypeLink, e.Link
		case "xglobal": // PAX global extended header, as `git archive` writes it
			h = &tar.Header{Typeflag: tar.TypeXGlobalHeader, Name: e.Name, Format: tar.FormatPAX,
				PAXRecords: map[string]string{"comment": "0123456789abcdef0123456789abcdef01234567"}}
		default:
			return nil, fmt.Errorf("entry type %q", e.Type)
		}
		if err := tw.WriteHeader(h); err != nil {
			return nil, err
		}
		if _, err := tw.Write(contentOf(e)); err != nil {
			return nil, err
		}
	}
	if err := tw.Close(); err != nil {
		return nil, err
	}
	return buf.Bytes(), nil
}

type wCase struct {
	Tar      []wEnt `json:"tar"`
	Mode     string `json:"mode"` // build | writer | lossless
	Scheme   string `json:"scheme"`
	Chunk    int    `json:"chunk"`
	MinChunk int    `json:"minchunk"`
	Workers  int    `json:"workers"`
	Level    int    `json:"level"`
	GzInput  bool   `json:"gzinput"` // hand the input tar gzip-compressed
}

type wIn struct {
	Cases []wCase `json:"cases"`
	Out   string  `json:"out"`
}

type wOpt struct {
	Mode    string `json:"mode"`
	MinOn   bool   `json:"minOn"`
	Workers int    `json:"workers"`
	Chunk   int    `json:"chunk"`
}

type wMember struct {
	S    int64 `json:"s"`
	E    int64 `json:"e"`
	ULen int64 `json:"ulen"`
}

type wRow struct {
	Name  string `json:"name"`
	Type  string `json:"type"`
	Size  int64  `json:"size"`
	Link  string `json:"link"`
	Meta  wMeta  `json:"meta"`
	O     int64  `json:"o"`
	Cs    int64  `json:"cs"`
	Off   int64  `json:"off"`
	Inner int64  `json:"inner"`
	Data  bool   `json:"data"`
	At    string `json:"at"`  // sha256 of the bytes found at (off, inner, n) by the independent reader
	Src   string `json:"src"` // sha256 of bytes [o, o+n) of the input file of that name
	Cd    string `json:"cd"`  // chunkDigest of the TOC row
	Fd    string `json:"fd"`  // digest of the TOC row (reg)
	Fsrc  string `json:"fsrc"`
}

type wEvent struct {
	Ev         string    `json:"ev"`
	Case       int       `json:"case"`
	Scheme     string    `json:"scheme"`
	Opt        wOpt      `json:"opt"`
	Chunk      int       `json:"chunk"`
	MinCh      int       `json:"minchunk"`
	Input      []wEnt    `json:"input"`
	Err        string    `json:"err"`
	ErrText    string    `json:"errtext"`
	Order      []wEnt    `json:"order"`
	Hdr        []int64   `json:"hdr"`
	Members    []wMember `json:"members"`
	PayloadEnd int64     `json:"payloadEnd"`
	Toc        []wRow    `json:"toc"`
	DiffID     string    `json:"diffid"`
	ShaAll     string    `json:"shaAll"`
	TocDigest  string    `json:"tocdigest"`
	ShaToc     string    `json:"shaToc"`
	ShaPayload string    `json:"shaPayload"`
	ShaInput   string    `json:"shaInput"`
	TarTail    int64     `json:"tartail"` // bytes of the decompressed payload after the last entry's padded data
}

func compressorFor(c wCase) (estargz.Compressor, *externaltoc.GzipCompression) {
	switch c.Scheme {
	case "zstd":
		return &zstdchunked.Compressor{CompressionLevel: zstd.SpeedDefault}, nil
	case "external":
		ext := externaltoc.NewGzipCompressionWithLevel(nil, 6).(*externaltoc.GzipCompression)
		return ext, ext
	}
	lvl := c.Level
	if lvl == 0 {
		lvl = 1
	}
	return estargz.NewGzipCompressorWithLevel(lvl), nil
}

// errClass: a refusal of an input entry type the builder does not support is an outcome of its own
func errClass(err error) string {
	if strings.Contains(err.Error(), "unsupported input tar entry") {
		return "refused"
	}
	return "other"
}

func runWriterCase(idx int, c wCase) wEvent {
	ev := wEvent{Ev: "Blob", Case: idx, Scheme: c.Scheme, Chunk: c.Chunk, MinCh: c.MinChunk,
		Opt:   wOpt{Mode: c.Mode, MinOn: c.MinChunk > 0, Workers: c.Workers, Chunk: c.Chunk},
		Input: []wEnt{}, Order: []wEnt{}, Hdr: []int64{}, Members: []wMember{}, Toc: []wRow{}}
	content := map[string][]byte{estargz.NoPrefetchLandmark: {0xf}, estargz.PrefetchLandmark: {0xf}}
	for _, e := range c.Tar {
		b := contentOf(e)
		if e.Type == "reg" {
			content[e.Name] = b // the last one of a name wins
		} else {
			delete(content, e.Name)
		}
		ev.Input = append(ev.Input, wEnt{Name: e.Name, Type: e.Type, Link: e.Link, Size: e.Size, C: sha(b), Meta: e.Meta})
	}
	tarBytes, err := buildTarMeta(c.Tar)
	if err != nil {
		ev.Err, ev.ErrText = "driver", err.Error()
		return ev
	}
	ev.ShaInput = sha(tarBytes)
	src := tarBytes
	if c.GzInput {
		var zb bytes.Buffer
		zw := gzip.NewWriter(&zb)
		zw.Write(tarBytes)
		zw.Close()
		src = zb.Bytes()
	}
	var blob []byte
	var ext *externaltoc.GzipCompression
	if c.Mode == "build" {
		var sc sOpt = sOpt{Scheme: c.Scheme, Level: c.Level}
		var opts []estargz.Option
		opts, ext = compressionFor(sc)
		opts = append(opts, estargz.WithChunkSize(c.Chunk), estargz.WithMinChunkSize(c.MinChunk), estargz.WithParallelism(c.Workers))
		b, err := estargz.Build(io.NewSectionReader(bytes.NewReader(src), 0, int64(len(src))), opts...)
		if err != nil {
			ev.Err, ev.ErrText = errClass(err), err.Error()
			return ev
		}
		blob, err = io.ReadAll(b)
		b.Close()
		if err != nil {
			ev.Err, ev.ErrText = errClass(err), err.Error()
			return ev
		}
		ev.DiffID, ev.TocDigest = b.DiffID().String(), b.TOCDigest().String()
	} else {
		var comp estargz.Compressor
		comp, ext = compressorFor(c)
		var buf bytes.Buffer
		w := estargz.NewWriterWithCompressor(&buf, comp)
		w.ChunkSize, w.MinChunkSize = c.Chunk, c.MinChunk
		if c.Mode == "lossless" {
			err = w.AppendTarLossLess(bytes.NewReader(src))
		} else {
			err = w.AppendTar(bytes.NewReader(src))
		}
		if err != nil {
			ev.Err, ev.ErrText = errClass(err), err.Error()
			return ev
		}
		d, err := w.Close()
		if err != nil {
			ev.Err, ev.ErrText = errClass(err), err.Error()
			return ev
		}
		blob = buf.Bytes()
		ev.DiffID, ev.TocDigest = w.DiffID(), d.String()
	}
	var extTOC []byte
	if ext != nil {
		var tb bytes.Buffer
		if _, err := ext.WriteTOCTo(&tb); err != nil {
			ev.Err, ev.ErrText = "unreadable", "external TOC: "+err.Error()
			return ev
		}
		extTOC = tb.Bytes()
	}
	vb, err := parseBlob(blob, c.Scheme, extTOC)
	if err != nil {
		ev.Err, ev.ErrText = "unreadable", err.Error()
		return ev
	}
	ev.PayloadEnd = vb.PayloadEnd
	for _, m := range vb.Members {
		ev.Members = append(ev.Members, wMember{S: m.Start, E: m.End, ULen: m.UEnd - m.UStart})
	}
	last := int64(0)
	for _, e := range vb.Entries {
		typ := e.Type
		ev.Order = append(ev.Order, wEnt{Name: e.Name, Type: typ, Link: e.Link, Size: e.Size, C: e.ContentSHA,
			Meta: wMeta{Mode: e.Mode, UID: e.UID, GID: e.GID, Mtime: e.ModTime}})
		ev.Hdr = append(ev.Hdr, e.DataStart-e.HdrStart)
		last = e.DataStart + (e.Size+511)/512*512
	}
	ev.TarTail = int64(len(vb.Payload)) - last
	ev.ShaPayload = sha(vb.Payload)
	all := vb.Payload
	if c.Scheme == "gzip" {
		all = append(append([]byte{}, vb.Payload...), vb.TOCMemberU...) // a gzip reader also yields the TOC tar member; the footer member is empty
	}
	ev.ShaAll = sha(all)
	ev.ShaToc = sha(vb.TOCJSON)
	regSize := map[string]int64{}
	for _, t := range vb.TOC.Entries {
		if t.Type == "reg" {
			regSize[t.Name] = t.Size
		}
	}
	memberAt := map[int64]vMember{}
	for _, m := range vb.Members {
		if _, dup := memberAt[m.Start]; !dup {
			memberAt[m.Start] = m
		}
	}
	for _, t := range vb.TOC.Entries {
		typ := t.Type
		if typ == "hardlink" {
			typ = "link"
		}
		var mt int64
		if t.ModTime3339 != "" {
			if tm, err := time.Parse(time.RFC3339, t.ModTime3339); err == nil {
				mt = tm.Unix()
			} else {
				mt = -1
			}
		}
		r := wRow{Name: t.Name, Type: typ, Size: t.Size, Link: t.LinkName, Meta: wMeta{Mode: t.Mode, UID: t.UID, GID: t.GID, Mtime: mt}, O: t.ChunkOffset, Cs: t.ChunkSize, Off: t.Offset, Inner: t.InnerOffset,
			Cd: t.ChunkDigest, Fd: t.Digest}
		r.Data = t.Type == "chunk" || (t.Type == "reg" && t.Size > 0)
		if t.Type == "reg" {
			r.Fsrc = sha(content[t.Name])
		}
		if r.Data {
			n := t.ChunkSize
			if n == 0 {
				n = regSize[t.Name] - t.ChunkOffset
			}
			in := content[t.Name]
			switch {
			case n <= 0 || t.ChunkOffset < 0 || t.ChunkOffset+n > int64(len(in)):
				r.Src = "claimed range outside the input file"
			default:
				r.Src = sha(in[t.ChunkOffset : t.ChunkOffset+n])
			}
			m, ok := memberAt[t.Offset]
			switch {
			case !ok:
				r.At = "no member starts at this offset"
			case n <= 0 || t.InnerOffset < 0 || t.InnerOffset+n > m.UEnd-m.UStart:
				r.At = "range outside the member"
			default:
				r.At = sha(vb.Payload[m.UStart+t.InnerOffset : m.UStart+t.InnerOffset+n])
			}
		}
		ev.Toc = append(ev.Toc, r)
	}
	return ev
}

func TestVerifWriterReplay(t *testing.T) {
	inPath := os.Getenv("VERIF_IN")
	if inPath == "" {
		t.Skip("VERIF_IN not set")
	}
	raw, err := os.ReadFile(inPath)
	if err != nil {
		t.Fatal(err)
	}
	var in wIn
	if err := json.Unmarshal(raw, &in); err != nil {
		t.Fatal(err)
	}
	events := make([]wEvent, len(in.Cases))
	var wg sync.WaitGroup
	sem := make(chan struct{}, min(8, runtime.GOMAXPROCS(0))) // bounded number of builds at a time (shared machine)
	for i := range in.Cases {
		wg.Add(1)
		sem <- struct{}{}
		go func(i int) {
			defer wg.Done()
			defer func() { <-sem }()
			events[i] = runWriterCase(i, in.Cases[i])
		}(i)
	}
	wg.Wait()
	f, err := os.Create(in.Out)
	if err != nil {
		t.Fatal(err)
	}
	w := bufio.NewWriter(f)
	enc := json.NewEncoder(w)
	for i := range events {
		if events[i].Err == "driver" {
			t.Fatalf("driver could not materialise case %d: %s", i, events[i].ErrText)
		}
		if err := enc.Encode(&events[i]); err != nil {
			t.Fatal(err)
		}
	}
	w.Flush()
	f.Close()
	t.Logf("replayed %d blobs", len(events))
}

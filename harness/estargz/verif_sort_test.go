//go:build verif

// C14 driver (Sort.tla): materialises every case TLC enumerated (input tar x prioritized list x
// allow-not-found) as a real tar, runs the real estargz.Build on it under the requested chunking /
// min-chunk-size / worker / compression options and records what came out (entry order of the
// decompressed tar, missed list or error class, physical stream layout, TOC offsets). Nothing is judged
// here: TLC validates the record against Sort.tla (SortTrace) and evaluates the C14 formulas (SortMonitor).
package estargz_test

import (
	"archive/tar"
	"bufio"
	"bytes"
	"encoding/json"
	"fmt"
	"io"
	"os"
	"runtime"
	"strings"
	"sync"
	"testing"

	"github.com/containerd/stargz-snapshotter/estargz"
	"github.com/containerd/stargz-snapshotter/estargz/externaltoc"
	"github.com/containerd/stargz-snapshotter/estargz/zstdchunked"
	"github.com/klauspost/compress/zstd"
)

type sEnt struct {
	Name string `json:"name"`
	Type string `json:"type"`
	Link string `json:"link"`
	Size int64  `json:"size"`
}

type sCase struct {
	Tar   []sEnt   `json:"tar"`
	Prio  []string `json:"prio"`
	Allow bool     `json:"allow"`
}

type sOpt struct {
	Chunk    int    `json:"chunk"`
	MinChunk int    `json:"minchunk"`
	Workers  int    `json:"workers"`
	Scheme   string `json:"scheme"`
	Level    int    `json:"level"`
}

type sIn struct {
	Cases []sCase  `json:"cases"`
	Opts  []sOpt   `json:"opts"`
	Runs  [][2]int `json:"runs"` // (case index, option index)
	Out   string   `json:"out"`
}

type sLm struct {
	Off   int64 `json:"off"`
	Inner int64 `json:"inner"`
}

type sLay struct {
	Lm      sLm       `json:"lm"`
	Streams []vStream `json:"streams"`
	Toc     []vTocRow `json:"toc"`
}

type sModelOpt struct {
	Chunk   int  `json:"chunk"`
	MinOn   bool `json:"minOn"`
	Workers int  `json:"workers"`
}

type sEvent struct {
	Ev      string    `json:"ev"`
	Case    int       `json:"case"`
	Tar     []sEnt    `json:"tar"`
	Prio    []string  `json:"prio"`
	Allow   bool      `json:"allow"`
	Opt     sModelOpt `json:"opt"`
	Scheme  string    `json:"scheme"`
	MinCh   int       `json:"minchunk"`
	Err     string    `json:"err"` // "" | "notfound" | "loop" | "other" | "unreadable"
	ErrText string    `json:"errtext"`
	Missed  []string  `json:"missed"`
	Order   []sEnt    `json:"order"`
	Lay     sLay      `json:"lay"`
}

// selfDescribing: byte i of a file depends on (name, size, i) only.
func selfDescribing(name string, size int64) []byte {
	b := make([]byte, size)
	var h uint32 = 2166136261
	for _, c := range []byte(fmt.Sprintf("%s#%d", name, size)) {
		h = (h ^ uint32(c)) * 16777619
	}
	for i := range b {
		b[i] = byte(h>>8) + byte(i*7+1)
	}
	return b
}

func buildTar(ents []sEnt) ([]byte, error) {
	var buf bytes.Buffer
	tw := tar.NewWriter(&buf)
	for _, e := range ents {
		h := &tar.Header{Name: e.Name, Mode: 0644, Uid: 0, Gid: 0}
		switch e.Type {
		case "dir":
			h.Typeflag, h.Mode = tar.TypeDir, 0755
		case "reg":
			h.Typeflag, h.Size = tar.TypeReg, e.Size
		case "link":
			h.Typeflag, h.Linkname = tar.TypeLink, e.Link
		case "symlink":
			h.Typeflag, h.Linkname = tar.TypeSymlink, e.Link
		default:
			return nil, fmt.Errorf("entry type %q", e.Type)
		}
		if err := tw.WriteHeader(h); err != nil {
			return nil, err
		}
		if e.Type == "reg" {
			if _, err := tw.Write(selfDescribing(e.Name, e.Size)); err != nil {
				return nil, err
			}
		}
	}
	if err := tw.Close(); err != nil {
		return nil, err
	}
	return buf.Bytes(), nil
}

type zstdCompression struct {
	*zstdchunked.Compressor
	*zstdchunked.Decompressor
}

func compressionFor(o sOpt) (opts []estargz.Option, ext *externaltoc.GzipCompression) {
	switch o.Scheme {
	case "zstd":
		opts = append(opts, estargz.WithCompression(&zstdCompression{
			&zstdchunked.Compressor{CompressionLevel: zstd.SpeedDefault}, &zstdchunked.Decompressor{}}))
	case "external":
		lvl := o.Level
		if lvl == 0 {
			lvl = 6
		}
		ext = externaltoc.NewGzipCompressionWithLevel(nil, lvl).(*externaltoc.GzipCompression)
		opts = append(opts, estargz.WithCompression(ext))
	default:
		if o.Level != 0 {
			opts = append(opts, estargz.WithCompressionLevel(o.Level))
		} else {
			opts = append(opts, estargz.WithCompressionLevel(1))
		}
	}
	return
}

func runSortCase(idx int, c sCase, o sOpt) sEvent {
	ev := sEvent{Ev: "Build", Case: idx, Tar: c.Tar, Prio: c.Prio, Allow: c.Allow, Scheme: o.Scheme, MinCh: o.MinChunk,
		Opt:    sModelOpt{Chunk: o.Chunk, MinOn: o.MinChunk > 0, Workers: o.Workers},
		Missed: []string{}, Order: []sEnt{}, Lay: sLay{Streams: []vStream{}, Toc: []vTocRow{}}}
	if ev.Tar == nil {
		ev.Tar = []sEnt{}
	}
	if ev.Prio == nil {
		ev.Prio = []string{}
	}
	tarBytes, err := buildTar(c.Tar)
	if err != nil {
		ev.Err, ev.ErrText = "driver", err.Error()
		return ev
	}
	opts, ext := compressionFor(o)
	opts = append(opts, estargz.WithChunkSize(o.Chunk), estargz.WithMinChunkSize(o.MinChunk), estargz.WithParallelism(o.Workers),
		estargz.WithPrioritizedFiles(c.Prio))
	var missed []string
	if c.Allow {
		opts = append(opts, estargz.WithAllowPrioritizeNotFound(&missed))
	}
	blob, err := estargz.Build(io.NewSectionReader(bytes.NewReader(tarBytes), 0, int64(len(tarBytes))), opts...)
	if err != nil {
		ev.ErrText = err.Error()
		if strings.Contains(err.Error(), ": not found") {
			ev.Err = "notfound"
		} else if strings.Contains(err.Error(), "form a loop") {
			ev.Err = "loop" // moveRecVisiting's hard-link-loop detector
		} else {
			ev.Err = "other"
		}
		return ev
	}
	b, err := io.ReadAll(blob)
	blob.Close()
	if err != nil {
		ev.Err, ev.ErrText = "other", "reading the blob: "+err.Error()
		return ev
	}
	if missed != nil {
		ev.Missed = missed
	}
	var extTOC []byte
	if ext != nil {
		var tb bytes.Buffer
		if _, err := ext.WriteTOCTo(&tb); err != nil {
			ev.Err, ev.ErrText = "unreadable", "external TOC: "+err.Error()
			return ev
		}
		extTOC = tb.Bytes()
	}
	vb, err := parseBlob(b, o.Scheme, extTOC)
	if err != nil {
		ev.Err, ev.ErrText = "unreadable", err.Error()
		return ev
	}
	for _, e := range vb.Entries {
		ev.Order = append(ev.Order, sEnt{Name: e.Name, Type: e.Type, Link: e.Link, Size: e.Size})
	}
	ev.Lay.Streams = vb.dataStreams(int64(o.Chunk))
	ev.Lay.Toc = vb.tocRows()
	ev.Lay.Lm = sLm{Off: -1, Inner: -1}
	for _, t := range vb.TOC.Entries {
		if t.Type == "reg" && (t.Name == estargz.PrefetchLandmark || t.Name == estargz.NoPrefetchLandmark) {
			ev.Lay.Lm = sLm{Off: t.Offset, Inner: t.InnerOffset}
			break
		}
	}
	return ev
}

func TestVerifSortReplay(t *testing.T) {
	inPath := os.Getenv("VERIF_IN")
	if inPath == "" {
		t.Skip("VERIF_IN not set")
	}
	raw, err := os.ReadFile(inPath)
	if err != nil {
		t.Fatal(err)
	}
	var in sIn
	if err := json.Unmarshal(raw, &in); err != nil {
		t.Fatal(err)
	}
	events := make([]sEvent, len(in.Runs))
	var wg sync.WaitGroup
	sem := make(chan struct{}, min(8, runtime.GOMAXPROCS(0))) // bounded number of builds at a time (shared machine)
	for i, r := range in.Runs {
		wg.Add(1)
		sem <- struct{}{}
		go func(i int, r [2]int) {
			defer wg.Done()
			defer func() { <-sem }()
			events[i] = runSortCase(r[0], in.Cases[r[0]], in.Opts[r[1]])
		}(i, r)
	}
	wg.Wait()
	f, err := os.Create(in.Out)
	if err != nil {
		t.Fatal(err)
	}
	w := bufio.NewWriter(f)
	enc := json.NewEncoder(w)
	for i := range events {
		if events[i].Err == "driver" {
			t.Fatalf("driver could not materialise case %d: %s", events[i].Case, events[i].ErrText)
		}
		if err := enc.Encode(&events[i]); err != nil {
			t.Fatal(err)
		}
	}
	if err := w.Flush(); err != nil {
		t.Fatal(err)
	}
	f.Close()
	t.Logf("replayed %d builds", len(events))
}

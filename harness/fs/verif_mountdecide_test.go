//go:build verif

package fs

// fs.Mount-level driver for Verify.tla (property C01): the decision of filesystem.Mount between Verify(TOC digest label),
// SkipVerify and refusal for every combination of snapshot labels and filesystem configuration, on the REAL filesystem
// (NewFilesystem) over a handler-backed in-memory registry that serves an original or altered eStargz blob, with a REAL
// kernel FUSE mount on a scratch directory (fs.go has no seam in front of fuse.NewServer); file bytes are read back through
// the mount. Executes and projects only; TLC decides (VerifyTrace / VerifyMonitor).

import (
	"bytes"
	"context"
	"encoding/json"
	"errors"
	"fmt"
	"io"
	"math/rand"
	"os"
	"path/filepath"
	"reflect"
	"sync"
	"testing"

	"github.com/containerd/containerd/v2/core/remotes/docker"
	"github.com/containerd/containerd/v2/pkg/reference"
	clog "github.com/containerd/log"
	"github.com/containerd/stargz-snapshotter/estargz"
	"github.com/containerd/stargz-snapshotter/fs/config"
	"github.com/containerd/stargz-snapshotter/fs/reader"
	"github.com/containerd/stargz-snapshotter/fs/remote"
	"github.com/containerd/stargz-snapshotter/fs/source"
	ocispec "github.com/opencontainers/image-spec/specs-go/v1"
	"golang.org/x/sys/unix"
)

type c01mStep struct {
	Act string `json:"act"`
	R   int    `json:"r"`
	C   int    `json:"c"`
	K   string `json:"k"`
	Tl  string `json:"tl"`
	Sk  bool   `json:"sk"`
}

type c01mJob struct {
	Name   string       `json:"name"`
	Out    string       `json:"out"`
	Tocs   []string     `json:"tocs"`
	FsCfgs []string     `json:"fscfgs"`
	Walks  [][]c01mStep `json:"walks"`
}

type c01mRegistry struct{ src *reader.C01Src }

func (g *c01mRegistry) Handle(ctx context.Context, desc ocispec.Descriptor) (remote.Fetcher, int64, error) {
	if desc.Digest != g.src.BlobDigest() {
		return nil, 0, fmt.Errorf("c01 registry: unknown blob %v", desc.Digest)
	}
	return &c01mFetcher{g.src}, g.src.Size(), nil
}

type c01mFetcher struct{ src *reader.C01Src }

func (f *c01mFetcher) Fetch(ctx context.Context, off int64, size int64) (io.ReadCloser, error) {
	if off < 0 || off > f.src.Size() {
		return nil, fmt.Errorf("out of range")
	}
	if off+size > f.src.Size() {
		size = f.src.Size() - off
	}
	b := make([]byte, size)
	n, err := f.src.ReadAt(b, off)
	if err != nil && err != io.EOF {
		return nil, err
	}
	return io.NopCloser(bytes.NewReader(b[:n])), nil
}
func (f *c01mFetcher) Check() error                       { return nil }
func (f *c01mFetcher) GenID(off int64, size int64) string { return fmt.Sprintf("c01-%d-%d", off, size) }

const (
	c01mRef         = "registry.example.com/c01/img:latest"
	c01mRefLabel    = "containerd.io/snapshot/remote/stargz.reference"
	c01mDigestLabel = "containerd.io/snapshot/remote/stargz.digest"
	c01mLayersLabel = "containerd.io/snapshot/remote/stargz.layers"
)

func TestVerifC01Mount(t *testing.T) {
	in := os.Getenv("VERIF_IN")
	if in == "" {
		t.Skip("VERIF_IN not set")
	}
	clog.SetLevel("panic") //nolint
	var jobs []c01mJob
	b, err := os.ReadFile(in)
	if err != nil {
		t.Fatal(err)
	}
	if err := json.Unmarshal(b, &jobs); err != nil {
		t.Fatal(err)
	}
	seed := int64(1)
	fmt.Sscan(os.Getenv("VERIF_SEED"), &seed)
	fx, err := reader.C01NewFixture()
	if err != nil {
		t.Fatal(err)
	}
	base := t.TempDir()
	for _, j := range jobs {
		outs := make([][]map[string]any, len(j.Walks))
		var wg sync.WaitGroup
		sem := make(chan struct{}, 6)
		for i := range j.Walks {
			wg.Add(1)
			sem <- struct{}{}
			go func(i int) {
				defer wg.Done()
				defer func() { <-sem }()
				outs[i] = c01mWalk(t, fx, j, i, rand.New(rand.NewSource(seed*1000003+int64(i))), filepath.Join(base, fmt.Sprintf("w%d", i)))
			}(i)
		}
		wg.Wait()
		f, err := os.Create(j.Out)
		if err != nil {
			t.Fatal(err)
		}
		enc := json.NewEncoder(f)
		for _, o := range outs {
			for _, e := range o {
				enc.Encode(e)
			}
		}
		f.Close()
	}
}

func c01mWalk(t *testing.T, fx *reader.C01Fixture, j c01mJob, wi int, rng *rand.Rand, root string) (out []map[string]any) {
	walk, toc, fscfg := j.Walks[wi], j.Tocs[wi], j.FsCfgs[wi]
	var alters [][2]any
	for _, s := range walk {
		if s.Act == "Alter" && s.K != "g" {
			alters = append(alters, [2]any{s.C, s.K})
		}
	}
	src, err := fx.NewSource(toc, alters, wi, rng)
	if err != nil {
		t.Errorf("walk %d: %v", wi, err)
		return nil
	}
	defer os.RemoveAll(root)
	cfg := config.Config{
		ResolveResultEntryTTLSec: 36000,
		NoPrefetch:               true,
		NoBackgroundFetch:        true,
		NoPrometheus:             true,
		AllowNoVerification:      fscfg[0] == 'a',
		DisableVerification:      fscfg[1] == 'd',
		BlobConfig:               config.BlobConfig{ChunkSize: 64},
		DirectoryCacheConfig:     config.DirectoryCacheConfig{SyncAdd: true},
	}
	hosts := func(reference.Spec) ([]docker.RegistryHost, error) {
		return nil, errors.New("c01 driver: no registry hosts")
	}
	fsys, err := NewFilesystem(filepath.Join(root, "fsroot"), cfg, WithGetSources(source.FromDefaultLabels(hosts)), WithResolveHandler("c01", &c01mRegistry{src}))
	if err != nil {
		t.Errorf("walk %d: NewFilesystem: %v", wi, err)
		return nil
	}
	fs := fsys.(*filesystem)
	out = append(out, map[string]any{"ev": "Reset", "toc": toc, "fscfg": fscfg, "cfg": fmt.Sprintf("mount %s fscfg=%s", src.Desc, fscfg)})
	var mounted []string // mountpoints of successful Mounts, latest last
	labelled := false    // some successful Mount carried a TOC digest label
	defer func() {
		for _, mp := range mounted {
			if err := fsys.Unmount(context.Background(), mp); err != nil {
				unix.Unmount(mp, unix.MNT_DETACH) //nolint
			}
		}
	}()
	read := func(c int) (string, string) {
		name, off, size := src.Chunk(c)
		// O_DIRECT: no kernel read-ahead, the FUSE read is exactly the chunk that is asked for
		f, err := os.OpenFile(filepath.Join(mounted[len(mounted)-1], name), os.O_RDONLY|unix.O_DIRECT, 0)
		if err != nil {
			return "verr", "-"
		}
		defer f.Close()
		buf := make([]byte, size)
		n, err := f.ReadAt(buf, off)
		if err != nil && !(err == io.EOF && int64(n) == size) {
			return "verr", "-" // through the kernel every failure of the read is EIO
		}
		return "ok", src.Project(c, buf[:n])
	}
	nm := 0
	for _, s := range walk {
		switch s.Act {
		case "Alter":
			how := src.Alter(s.C, s.K)
			out = append(out, map[string]any{"ev": "Alter", "c": s.C, "k": s.K, "how": how})
		case "Mount":
			nm++
			mp := filepath.Join(root, fmt.Sprintf("mnt%d", nm))
			if err := os.MkdirAll(mp, 0700); err != nil {
				t.Errorf("%v", err)
				return
			}
			labels := map[string]string{
				c01mRefLabel:    c01mRef,
				c01mDigestLabel: src.BlobDigest().String(),
				c01mLayersLabel: src.BlobDigest().String(),
			}
			if s.Tl != "none" {
				labels[estargz.TOCJSONDigestAnnotation] = src.Digest(s.Tl).String()
			}
			if s.Sk {
				labels[config.TargetSkipVerifyLabel] = "true"
			}
			err := fsys.Mount(context.Background(), mp, labels)
			e := map[string]any{"ev": "Mount", "tl": s.Tl, "sk": s.Sk, "res": "ok", "err": fmt.Sprint(err)}
			if err != nil {
				e["res"] = "err"
			} else {
				mounted = append(mounted, mp)
				if s.Tl != "none" {
					labelled = true
				}
				// which call set the layer up: does the layer's reader come from VerifyTOC or from SkipVerify?
				fs.layerMu.Lock()
				l := fs.layer[mp]
				fs.layerMu.Unlock()
				if l != nil {
					v := reflect.ValueOf(l).Elem().Field(0).Elem().FieldByName("verified")
					if v.IsValid() {
						if v.Bool() {
							e["lr"] = "verified"
						} else {
							e["lr"] = "skipped"
						}
					}
				}
			}
			out = append(out, e)
		case "Read":
			if len(mounted) == 0 {
				return // diverged: TLC rejects at the Mount that should have succeeded
			}
			res, v := read(s.C)
			out = append(out, map[string]any{"ev": "Read", "r": s.R, "c": s.C, "res": res, "v": v})
		default:
			return // (passthrough etc. are not driven at this level)
		}
	}
	if labelled {
		// what a read through a mount that was given a TOC digest label returns now (monitor only)
		for c := 1; c <= src.NumChunks(); c++ {
			res, v := read(c)
			out = append(out, map[string]any{"ev": "LateRead", "c": c, "res": res, "v": v})
		}
	}
	return out
}

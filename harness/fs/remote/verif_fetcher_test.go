//go:build verif

package remote

// Driver for Fetcher.tla (property C18, headers). It only EXECUTES and RECORDS.
//
// The registry is an in-memory http.RoundTripper with a scripted personality (serves the blob directly / redirects
// to a location, locations expire with 403, the registry itself may answer 403 once, it may demand Authorization with a 401 Basic challenge,
// locations may refuse HEAD). EVERY http.Request it sees is an event (host, configured host headers present?,
// Authorization present?, method, answer), appended while the registry's mutex is held.
//
//	TestVerifFetcherReplay  walks over the TLC state graph of Fetcher (reads of f.url and f.header as separate steps)
//	                        are forced on real goroutines: each actor is parked at its next stop point (gate before /
//	                        after the read of f.url, entry / exit of RoundTrip, return) and released one step at a time.
//	TestVerifFetcherFree    free-running goroutines (fetch / check) while the personality changes, under -race.
//
// The events go to TLC (FetcherTrace: conformance, FetcherMonitor: ConfinedHeaders / ConfinedAuth).

import (
	"bytes"
	"context"
	"encoding/json"
	"fmt"
	"io"
	"math/rand"
	"net/http"
	neturl "net/url"
	"os"
	"strconv"
	"sync"
	"testing"
	"time"

	"github.com/containerd/containerd/v2/core/remotes/docker"
	"github.com/containerd/containerd/v2/pkg/reference"
	"github.com/containerd/stargz-snapshotter/fs/source"
	"github.com/containerd/stargz-snapshotter/util/verifhook"
	digest "github.com/opencontainers/go-digest"
	ocispec "github.com/opencontainers/image-spec/specs-go/v1"
)

const (
	vRegHost = "reg.example.com"
	vL1Host  = "l1.cdn.example.net"
	vL2Host  = "l2.cdn.example.net"
	vRef     = "reg.example.com/app:1"
	vDigest  = "sha256:aaaaaaaaaaaaaaaaaaaaaaaaaaaaaaaaaaaaaaaaaaaaaaaaaaaaaaaaaaaaaaaa"
)

// the headers configured for the registry host (config Header of the host)
var vOrgHeader = http.Header{"X-Registry-Secret": {"org-secret-value"}, "X-Tenant": {"tenant-7"}}

type fev map[string]any

// ---------------------------------------------------------------- event log and actors

type fLog struct {
	mu  sync.Mutex
	enc *json.Encoder
	f   *os.File
	n   int
}

func newFLog(t testing.TB, path string) *fLog {
	f, err := os.Create(path)
	if err != nil {
		t.Fatal(err)
	}
	return &fLog{f: f, enc: json.NewEncoder(f)}
}
func (l *fLog) emit(e fev) {
	l.mu.Lock()
	if err := l.enc.Encode(e); err != nil {
		panic(err)
	}
	l.n++
	l.mu.Unlock()
}
func (l *fLog) close() { l.f.Close() }

type actors struct {
	mu sync.Mutex
	m  map[int64]string
}

func (a *actors) set(name string) {
	a.mu.Lock()
	a.m[verifhook.Goid()] = name
	a.mu.Unlock()
}
func (a *actors) me() string {
	a.mu.Lock()
	defer a.mu.Unlock()
	return a.m[verifhook.Goid()]
}

func hostName(h string) string {
	switch h {
	case vRegHost:
		return "Reg"
	case vL1Host:
		return "L1"
	case vL2Host:
		return "L2"
	}
	return "Other:" + h
}
func urlName(u string) string {
	p, err := neturl.Parse(u)
	if err != nil {
		return "Unparsable"
	}
	return hostName(p.Host)
}
func hdrName(h http.Header) string {
	for k := range vOrgHeader {
		if _, ok := h[k]; ok {
			return "Org"
		}
	}
	return "None"
}
func locHost(l string) string {
	if l == "L1" {
		return vL1Host
	}
	return vL2Host
}

// ---------------------------------------------------------------- scheduler (gated replay)

type arrival struct {
	actor, point string
}

type sched struct {
	mu       sync.Mutex
	free     bool // pass-through
	parked   map[string]chan struct{}
	arrivals chan arrival
}

func newSched() *sched {
	return &sched{parked: map[string]chan struct{}{}, arrivals: make(chan arrival, 64)}
}

// stop parks the calling actor at the named point until the driver releases it.
func (s *sched) stop(actor, point string) {
	if s == nil || actor == "" {
		return
	}
	s.mu.Lock()
	if s.free {
		s.mu.Unlock()
		return
	}
	ch := make(chan struct{})
	s.parked[actor] = ch
	s.mu.Unlock()
	s.arrivals <- arrival{actor, point}
	<-ch
}

// returned reports that the actor's call returned.
func (s *sched) returned(actor string) {
	if s == nil {
		return
	}
	s.mu.Lock()
	free := s.free
	s.mu.Unlock()
	if !free {
		s.arrivals <- arrival{actor, "return"}
	}
}

func (s *sched) release(actor string) {
	s.mu.Lock()
	ch := s.parked[actor]
	delete(s.parked, actor)
	s.mu.Unlock()
	if ch != nil {
		close(ch)
	}
}

func (s *sched) releaseAll() {
	s.mu.Lock()
	s.free = true
	for a, ch := range s.parked {
		close(ch)
		delete(s.parked, a)
	}
	s.mu.Unlock()
}

// await waits for the next stop point of the actor (nobody else is running during a gated replay).
func (s *sched) await(actor string) (string, bool) {
	select {
	case a := <-s.arrivals:
		if a.actor != actor {
			return a.actor + "@" + a.point, false
		}
		return a.point, true
	case <-time.After(60 * time.Second):
		return "timeout", false
	}
}

// ---------------------------------------------------------------- the registry

type memRegistry struct {
	mu       sync.Mutex
	mode     string
	loc      string
	valid    map[string]bool
	needAuth bool
	headOK   bool
	regDeny  bool // the registry answers its next authorized request with 403 (once)
	log      *fLog
	act      *actors
	sch      *sched
}

func (r *memRegistry) env(what, l string) bool {
	r.mu.Lock()
	defer r.mu.Unlock()
	switch what {
	case "switch":
		if r.mode == "direct" {
			r.mode = "redir"
		} else {
			r.mode = "direct"
		}
	case "deny":
		if r.regDeny {
			return false
		}
		r.regDeny = true
	case "expire":
		if !r.valid[l] {
			return false
		}
		delete(r.valid, l)
		if r.loc == l {
			if l == "L1" {
				r.loc = "L2"
			} else {
				r.loc = "L1"
			}
		}
	}
	r.log.emit(fev{"ev": "Env", "what": what, "l": l})
	return true
}

func (r *memRegistry) RoundTrip(req *http.Request) (*http.Response, error) {
	me := r.act.me()
	r.sch.stop(me, "rtEntry")
	host := hostName(req.URL.Host)
	hdr := hdrName(req.Header)
	auth := "None"
	if req.Header.Get("Authorization") != "" {
		auth = "Cred"
	}
	res := &http.Response{Header: http.Header{}, Request: req, Proto: "HTTP/1.1", ProtoMajor: 1, ProtoMinor: 1}
	body := []byte{}
	r.mu.Lock()
	rsp, to := "", ""
	switch {
	case host == "Reg":
		switch {
		case r.needAuth && auth == "None":
			rsp = "401"
		case r.regDeny:
			rsp, r.regDeny = "403", false
		case r.mode == "direct":
			rsp = "ok"
		default:
			rsp, to = "redir", r.loc
		}
	case host == "L1" || host == "L2":
		switch {
		case !r.valid[host]:
			rsp = "403"
		case req.Method == "HEAD" && !r.headOK:
			rsp = "405"
		default:
			rsp = "ok"
		}
	default:
		rsp = "404"
	}
	r.log.emit(fev{"ev": "Send", "a": me, "host": host, "hdr": hdr, "auth": auth, "meth": req.Method, "rsp": rsp, "to": to})
	r.mu.Unlock()
	switch rsp {
	case "ok":
		if req.Method == "HEAD" {
			res.StatusCode = http.StatusOK
			res.Header.Set("Content-Length", "100")
		} else {
			res.StatusCode = http.StatusPartialContent
			res.Header.Set("Content-Range", "bytes 0-1/100")
			res.Header.Set("Content-Type", "application/octet-stream")
			body = []byte("ab")
		}
	case "redir":
		res.StatusCode = http.StatusTemporaryRedirect
		res.Header.Set("Location", "https://"+locHost(to)+"/blobs/"+vDigest+"?sig=x")
	case "401":
		res.StatusCode = http.StatusUnauthorized
		res.Header.Set("WWW-Authenticate", `Basic realm="reg"`)
	case "403":
		res.StatusCode = http.StatusForbidden
	case "405":
		res.StatusCode = http.StatusMethodNotAllowed
	default:
		res.StatusCode = http.StatusNotFound
	}
	res.Status = fmt.Sprintf("%d %s", res.StatusCode, http.StatusText(res.StatusCode))
	res.Body = io.NopCloser(bytes.NewReader(body))
	res.ContentLength = int64(len(body))
	r.sch.stop(me, "rtExit")
	return res, nil
}

// ---------------------------------------------------------------- one system under test

type fsys struct {
	t   testing.TB
	reg *memRegistry
	log *fLog
	act *actors
	sch *sched
	f   *httpFetcher
	wg  sync.WaitGroup
}

func newFsys(t testing.TB, log *fLog, gated bool) *fsys {
	s := &fsys{t: t, log: log, act: &actors{m: map[int64]string{}}}
	if gated {
		s.sch = newSched()
	}
	s.reg = &memRegistry{mode: "direct", loc: "L1", valid: map[string]bool{"L1": true, "L2": true}, headOK: true,
		log: log, act: s.act, sch: s.sch}
	verifhook.SetEvent(func(name string, kv ...any) {
		switch name {
		case "fetcher.readURL":
			log.emit(fev{"ev": "ReadURL", "a": s.act.me(), "url": urlName(kv[1].(string))})
		case "fetcher.setBoth":
			log.emit(fev{"ev": "SetBoth", "a": s.act.me(), "url": urlName(kv[1].(string)), "hdr": hdrName(kv[2].(http.Header))})
		}
	})
	if gated {
		verifhook.SetGate(func(name string, kv ...any) {
			switch name {
			case "fetcher.beforeURL":
				s.sch.stop(s.act.me(), "beforeURL")
			case "fetcher.afterURL":
				s.sch.stop(s.act.me(), "afterURL")
			}
		})
	}
	return s
}

func (s *fsys) done() {
	if s.sch != nil {
		s.sch.releaseAll()
	}
	s.wg.Wait()
	verifhook.SetEvent(nil)
	verifhook.SetGate(nil)
}

func (s *fsys) hosts() source.RegistryHosts {
	return func(reference.Spec) ([]docker.RegistryHost, error) {
		return []docker.RegistryHost{{
			Client:       &http.Client{Transport: s.reg},
			Host:         vRegHost,
			Scheme:       "https",
			Path:         "/v2",
			Capabilities: docker.HostCapabilityPull | docker.HostCapabilityResolve,
			Header:       vOrgHeader,
			// the credential function offers the secret for the registry host only (Creds.tla: server address match)
			Authorizer: docker.NewDockerAuthorizer(docker.WithAuthCreds(func(host string) (string, string, error) {
				if host == vRegHost {
					return "user", "registry-password", nil
				}
				return "", "", nil
			})),
		}}, nil
	}
}

// boot sets the initial personality and starts newHTTPFetcher as actor "res".
func (s *fsys) boot(mode string, needAuth, headOK bool) {
	s.reg.mu.Lock()
	s.reg.mode, s.reg.needAuth, s.reg.headOK = mode, needAuth, headOK
	s.reg.mu.Unlock()
	s.log.emit(fev{"ev": "Boot", "mode": mode, "needAuth": needAuth, "headOK": headOK})
	refspec, err := reference.Parse(vRef)
	if err != nil {
		s.t.Fatal(err)
	}
	s.wg.Add(1)
	started := make(chan struct{})
	go func() {
		defer s.wg.Done()
		s.act.set("res")
		close(started)
		f, _, err := newHTTPFetcher(context.Background(), &fetcherConfig{
			hosts:   s.hosts(),
			refspec: refspec,
			desc:    ocispec.Descriptor{Digest: digest.Digest(vDigest)},
		})
		e := fev{"ev": "Resolved", "ok": err == nil, "url": "none", "hdr": "None"}
		if err == nil {
			s.f = f
			f.urlMu.Lock()
			e["url"], e["hdr"] = urlName(f.url), hdrName(f.header)
			f.urlMu.Unlock()
		}
		s.log.emit(e)
		s.sch.returned("res")
	}()
	<-started
}

func (s *fsys) op(kind string) bool {
	if kind == "check" {
		return s.f.check() == nil
	}
	mr, err := s.f.fetch(context.Background(), []region{{0, 1}}, true)
	if err != nil {
		return false
	}
	mr.Close()
	return true
}

func (s *fsys) start(a, kind string) {
	s.log.emit(fev{"ev": "Start", "a": a, "kind": kind})
	s.wg.Add(1)
	started := make(chan struct{})
	go func() {
		defer s.wg.Done()
		s.act.set(a)
		close(started)
		ok := s.op(kind)
		s.log.emit(fev{"ev": "End", "a": a, "ok": ok})
		s.sch.returned(a)
	}()
	<-started
}

// ---------------------------------------------------------------- gated replay

type fStep struct {
	Act      string `json:"act"`
	A        string `json:"a"`
	Kind     string `json:"kind"`
	Mode     string `json:"mode"`
	NeedAuth bool   `json:"needAuth"`
	HeadOK   bool   `json:"headOK"`
	What     string `json:"what"`
	L        string `json:"l"`
	Hold     bool   `json:"hold"` // Send: the actor's next step (SetBoth) is scheduled separately
}

type fJob struct {
	Out   string    `json:"out"`
	Walks [][]fStep `json:"walks"`
}

func replayFetcherWalk(t *testing.T, walk []fStep, log *fLog) (steps int, diverged string) {
	log.emit(fev{"ev": "Reset"})
	s := newFsys(t, log, true)
	defer s.done()
	cur := map[string]string{}
	expect := func(a string, want ...string) bool {
		p, ok := s.sch.await(a)
		if !ok {
			diverged = fmt.Sprintf("actor %s: got %s, wanted %v", a, p, want)
			return false
		}
		cur[a] = p
		for _, w := range want {
			if p == w {
				return true
			}
		}
		diverged = fmt.Sprintf("actor %s stopped at %s, wanted %v", a, p, want)
		return false
	}
	at := func(a, want string) bool {
		if cur[a] != want {
			diverged = fmt.Sprintf("actor %s is at %q, the walk needs it at %q", a, cur[a], want)
			return false
		}
		return true
	}
	for _, st := range walk {
		ok := true
		switch st.Act {
		case "Boot":
			s.boot(st.Mode, st.NeedAuth, st.HeadOK)
			ok = expect("res", "rtEntry")
		case "Env":
			if !s.reg.env(st.What, st.L) {
				diverged = "Env step not applicable"
				ok = false
			}
		case "Start":
			if s.f == nil {
				diverged = "Start without a fetcher"
				ok = false
				break
			}
			s.start(st.A, st.Kind)
			ok = expect(st.A, "beforeURL")
		case "ReadURL":
			if ok = at(st.A, "beforeURL"); ok {
				s.sch.release(st.A)
				ok = expect(st.A, "afterURL")
			}
		case "ReadHdr":
			if ok = at(st.A, "afterURL"); ok {
				s.sch.release(st.A)
				ok = expect(st.A, "rtEntry")
			}
		case "Send":
			if ok = at(st.A, "rtEntry"); ok {
				s.sch.release(st.A)
				if ok = expect(st.A, "rtExit"); ok && !st.Hold {
					s.sch.release(st.A)
					ok = expect(st.A, "rtEntry", "return")
				}
			}
		case "SetBoth":
			if ok = at(st.A, "rtExit"); ok {
				s.sch.release(st.A)
				ok = expect(st.A, "beforeURL", "return")
			}
		default:
			t.Fatalf("unknown step %q", st.Act)
		}
		if !ok {
			return steps, diverged
		}
		steps++
	}
	return steps, ""
}

func TestVerifFetcherReplay(t *testing.T) {
	in := os.Getenv("VERIF_FETCHER_IN")
	if in == "" {
		t.Skip("VERIF_FETCHER_IN not set")
	}
	b, err := os.ReadFile(in)
	if err != nil {
		t.Fatal(err)
	}
	var jobs []fJob
	if err := json.Unmarshal(b, &jobs); err != nil {
		t.Fatal(err)
	}
	type summary struct {
		Out      string   `json:"out"`
		Walks    int      `json:"walks"`
		Steps    int      `json:"steps"`
		Diverged []string `json:"diverged"`
	}
	var sums []summary
	for _, j := range jobs {
		log := newFLog(t, j.Out)
		sm := summary{Out: j.Out}
		for i, w := range j.Walks {
			n, d := replayFetcherWalk(t, w, log)
			sm.Walks++
			sm.Steps += n
			if d != "" && len(sm.Diverged) < 20 {
				sm.Diverged = append(sm.Diverged, fmt.Sprintf("walk %d step %d: %s", i, n, d))
			}
		}
		log.close()
		sums = append(sums, sm)
	}
	sb, _ := json.Marshal(sums)
	if err := os.WriteFile(in+".summary", sb, 0o644); err != nil {
		t.Fatal(err)
	}
}

// ---------------------------------------------------------------- free run

func TestVerifFetcherFree(t *testing.T) {
	out := os.Getenv("VERIF_FETCHER_FREE_OUT")
	if out == "" {
		t.Skip("VERIF_FETCHER_FREE_OUT not set")
	}
	seed, _ := strconv.ParseInt(os.Getenv("VERIF_SEED"), 10, 64)
	ntr, _ := strconv.Atoi(os.Getenv("VERIF_FETCHER_FREE_TRACES"))
	if ntr == 0 {
		ntr = 50
	}
	log := newFLog(t, out)
	defer log.close()
	for i := 0; i < ntr; i++ {
		rng := rand.New(rand.NewSource(seed*7919 + int64(i)))
		log.emit(fev{"ev": "Reset"})
		s := newFsys(t, log, false)
		mode := []string{"direct", "redir"}[rng.Intn(2)]
		s.boot(mode, rng.Intn(2) == 0, rng.Intn(3) != 0)
		s.wg.Wait()
		if s.f == nil {
			s.done()
			continue
		}
		nw := 2 + rng.Intn(3)
		nops := 2 + rng.Intn(4)
		var wg sync.WaitGroup
		startc := make(chan struct{})
		for w := 0; w < nw; w++ {
			wg.Add(1)
			a := fmt.Sprintf("p%d", w+1)
			r := rand.New(rand.NewSource(rng.Int63()))
			go func() {
				defer wg.Done()
				s.act.set(a)
				<-startc
				for k := 0; k < nops; k++ {
					kind := []string{"fetch", "fetch", "check"}[r.Intn(3)]
					log.emit(fev{"ev": "Start", "a": a, "kind": kind})
					ok := s.op(kind)
					log.emit(fev{"ev": "End", "a": a, "ok": ok})
					if r.Intn(3) == 0 {
						time.Sleep(time.Duration(r.Intn(100)) * time.Microsecond)
					}
				}
			}()
		}
		nenv := 1 + rng.Intn(3)
		er := rand.New(rand.NewSource(rng.Int63()))
		wg.Add(1)
		go func() {
			defer wg.Done()
			<-startc
			for k := 0; k < nenv; k++ {
				time.Sleep(time.Duration(er.Intn(150)) * time.Microsecond)
				switch er.Intn(4) {
				case 0:
					s.reg.env("switch", "")
				case 1:
					s.reg.env("deny", "")
				default:
					s.reg.mu.Lock()
					l := s.reg.loc
					s.reg.mu.Unlock()
					if er.Intn(4) == 0 {
						l = []string{"L1", "L2"}[er.Intn(2)]
					}
					s.reg.env("expire", l)
				}
			}
		}()
		close(startc)
		wg.Wait()
		s.done()
	}
}

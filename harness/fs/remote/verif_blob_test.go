//go:build verif

// Driver of property C06 (spec/Blob.tla, spec/RegionSet.tla). It decides nothing: it executes calls on a REAL
// fs/remote blob (real httpFetcher, real cache implementations behind a recording wrapper) against a scripted
// in-memory registry, projects what happened to the specification's abstract values (blob byte i has value i+1,
// so a returned buffer projects to blob positions) and records ndjson. TLC decides (BlobTrace, BlobMonitor).
package remote

import (
	"bytes"
	"encoding/json"
	"fmt"
	"io"
	"math/rand"
	"mime/multipart"
	"net/http"
	"net/textproto"
	"os"
	"sort"
	"strconv"
	"strings"
	"sync"
	"testing"
	"time"

	"github.com/containerd/stargz-snapshotter/cache"
)

const (
	c06BlobURL  = "http://c06.registry/v2/img/blobs/sha256:c06"
	c06RedirURL = "http://c06.redirect/blob?gen="
)

// ---------------------------------------------------------------- event log

type c06Log struct {
	mu sync.Mutex
	f  *os.File
	n  int
}

func c06NewLog(t *testing.T, path string) *c06Log {
	f, err := os.Create(path)
	if err != nil {
		t.Fatalf("c06: create %s: %v", path, err)
	}
	return &c06Log{f: f}
}

// emitLocked must be called with l.mu held.
func (l *c06Log) emitLocked(ev map[string]any) {
	b, err := json.Marshal(ev)
	if err != nil {
		panic(err)
	}
	l.f.Write(append(b, '\n'))
	l.n++
}

func (l *c06Log) emit(ev map[string]any) {
	l.mu.Lock()
	l.emitLocked(ev)
	l.mu.Unlock()
}

// ---------------------------------------------------------------- scripted registry

type c06Server struct {
	mu        sync.Mutex
	contents  []byte
	script    []string // personalities of the next range requests (replay)
	rng       *rand.Rand
	free      []string // personalities drawn at random when the script is empty (free run); nil = "err"
	refreshOK bool
	gen       int
	slow      bool // hand out single-part bodies one byte per Read
	delay     time.Duration
	log       *c06Log
	nreq      int
}

type c06SlowReader struct{ r io.Reader }

func (s *c06SlowReader) Read(p []byte) (int, error) {
	if len(p) > 1 {
		p = p[:1]
	}
	return s.r.Read(p)
}

func (s *c06Server) body(b []byte) io.ReadCloser {
	var r io.Reader = bytes.NewReader(b)
	if s.slow {
		r = &c06SlowReader{r}
	}
	return io.NopCloser(r)
}

func c06Resp(req *http.Request, code int, h http.Header, body io.ReadCloser) *http.Response {
	if h == nil {
		h = make(http.Header)
	}
	if body == nil {
		body = io.NopCloser(bytes.NewReader(nil))
	}
	return &http.Response{StatusCode: code, Status: fmt.Sprintf("%d %s", code, http.StatusText(code)),
		Header: h, Body: body, Request: req, Proto: "HTTP/1.1", ProtoMajor: 1, ProtoMinor: 1}
}

func c06ParseRanges(h string) ([][2]int64, error) {
	if !strings.HasPrefix(h, "bytes=") {
		return nil, fmt.Errorf("bad range header %q", h)
	}
	var out [][2]int64
	for _, p := range strings.Split(h[len("bytes="):], ",") {
		be := strings.Split(p, "-")
		if len(be) != 2 {
			return nil, fmt.Errorf("bad range %q", p)
		}
		b, err1 := strconv.ParseInt(be[0], 10, 64)
		e, err2 := strconv.ParseInt(be[1], 10, 64)
		if err1 != nil || err2 != nil {
			return nil, fmt.Errorf("bad range %q", p)
		}
		out = append(out, [2]int64{b, e})
	}
	return out, nil
}

func (s *c06Server) RoundTrip(req *http.Request) (*http.Response, error) {
	url := req.URL.String()
	if url == c06BlobURL {
		// refreshURL -> redirect(): GET blobURL, Range: bytes=0-1
		s.mu.Lock()
		ok := s.refreshOK
		s.gen++
		gen := s.gen
		s.mu.Unlock()
		if !ok {
			return c06Resp(req, http.StatusInternalServerError, nil, nil), nil
		}
		h := make(http.Header)
		h.Set("Location", c06RedirURL+strconv.Itoa(gen))
		return c06Resp(req, http.StatusTemporaryRedirect, h, nil), nil
	}
	if !strings.HasPrefix(url, c06RedirURL) {
		return c06Resp(req, http.StatusNotFound, nil, nil), nil
	}
	ranges, err := c06ParseRanges(req.Header.Get("Range"))
	if err != nil || len(ranges) == 0 {
		return c06Resp(req, http.StatusRequestedRangeNotSatisfiable, nil, nil), nil
	}
	size := int64(len(s.contents))
	sb, se := ranges[0][0], ranges[0][1]
	for _, r := range ranges {
		if r[0] < sb {
			sb = r[0]
		}
		if r[1] > se {
			se = r[1]
		}
	}

	s.mu.Lock()
	var pers string
	if len(s.script) > 0 {
		pers, s.script = s.script[0], s.script[1:]
	} else if s.free != nil {
		pers = s.free[s.rng.Intn(len(s.free))]
		if (pers == "shift" || pers == "half") && sb >= se {
			pers = "first"
		}
	} else {
		pers = "err"
	}
	if pers == "e403" {
		s.refreshOK = true
	} else if pers == "e403f" {
		s.refreshOK = false
	}
	s.nreq++
	delay := s.delay
	// the request log is written under the server lock: order of Req events = order of arrival
	rs := make([][]int64, len(ranges))
	for i, r := range ranges {
		rs[i] = []int64{r[0], r[1]}
	}
	s.log.emit(map[string]any{"ev": "Req", "ranges": rs, "pers": pers})
	s.mu.Unlock()
	if delay > 0 {
		time.Sleep(delay)
	}

	single := func(b, e int64, short int64) *http.Response {
		if e >= size {
			e = size - 1
		}
		h := make(http.Header)
		h.Set("Content-Range", fmt.Sprintf("bytes %d-%d/%d", b, e, size))
		h.Set("Content-Type", "application/octet-stream")
		data := s.contents[b : e+1]
		data = data[:int64(len(data))-short]
		h.Set("Content-Length", strconv.Itoa(len(data)))
		return c06Resp(req, http.StatusPartialContent, h, s.body(data))
	}
	switch pers {
	case "multi", "multirev":
		order := make([][2]int64, len(ranges))
		copy(order, ranges)
		if pers == "multirev" {
			for i, j := 0, len(order)-1; i < j; i, j = i+1, j-1 {
				order[i], order[j] = order[j], order[i]
			}
		}
		var buf bytes.Buffer
		mw := multipart.NewWriter(&buf)
		for _, r := range order {
			b, e := r[0], r[1]
			if e >= size {
				e = size - 1
			}
			mh := make(textproto.MIMEHeader)
			mh.Set("Content-Type", "application/octet-stream")
			mh.Set("Content-Range", fmt.Sprintf("bytes %d-%d/%d", b, e, size))
			w, err := mw.CreatePart(mh)
			if err != nil {
				return nil, err
			}
			w.Write(s.contents[b : e+1])
		}
		mw.Close()
		h := make(http.Header)
		h.Set("Content-Type", "multipart/byteranges; boundary="+mw.Boundary())
		return c06Resp(req, http.StatusPartialContent, h, s.body(buf.Bytes())), nil
	case "first":
		return single(ranges[0][0], ranges[0][1], 0), nil
	case "super":
		return single(sb, se, 0), nil
	case "short":
		return single(sb, se, 1), nil
	case "shift":
		return single(sb+1, se, 0), nil
	case "half":
		return single(sb, sb+(se-sb)/2, 0), nil
	case "whole":
		h := make(http.Header)
		h.Set("Content-Length", strconv.FormatInt(size, 10))
		return c06Resp(req, http.StatusOK, h, s.body(s.contents)), nil
	case "e400":
		return c06Resp(req, http.StatusBadRequest, nil, nil), nil
	case "e403", "e403f":
		return c06Resp(req, http.StatusForbidden, nil, nil), nil
	}
	return nil, fmt.Errorf("c06: scripted transport error")
}

// ---------------------------------------------------------------- recording cache

type c06Cache struct {
	inner     cache.BlobCache
	mu        sync.Mutex
	keys      map[string][2]int64 // genID -> chunk
	committed map[[2]int64]bool   // ever committed
	present   map[[2]int64]bool   // committed and not dropped since (exact for the memory cache)
	dropped   map[string]bool
	failNext  map[[2]int64]bool // the next commit of this chunk fails
	log       *c06Log
}

func c06NewCache(inner cache.BlobCache, f fetcher, size int64, log *c06Log) *c06Cache {
	c := &c06Cache{inner: inner, keys: map[string][2]int64{}, committed: map[[2]int64]bool{}, present: map[[2]int64]bool{},
		dropped: map[string]bool{}, failNext: map[[2]int64]bool{}, log: log}
	for b := int64(0); b <= size; b++ {
		for e := b; e <= size; e++ {
			c.keys[f.genID(region{b, e})] = [2]int64{b, e}
		}
	}
	return c
}

func (c *c06Cache) Get(key string, opts ...cache.Option) (cache.Reader, error) {
	c.mu.Lock()
	d := c.dropped[key]
	c.mu.Unlock()
	if d {
		return nil, fmt.Errorf("c06: dropped %q", key)
	}
	return c.inner.Get(key, opts...)
}

type c06Writer struct {
	cache.Writer
	c   *c06Cache
	key string
}

func (w *c06Writer) Commit() error {
	c := w.c
	k, known := c.keys[w.key]
	c.mu.Lock()
	fail := known && c.failNext[k]
	if fail {
		delete(c.failNext, k)
	}
	c.mu.Unlock()
	if fail {
		c.log.emit(map[string]any{"ev": "CFail", "k": []int64{k[0], k[1]}})
		w.Writer.Abort()
		return fmt.Errorf("c06: scripted commit failure")
	}
	if err := w.Writer.Commit(); err != nil {
		return err
	}
	c.mu.Lock()
	if known {
		c.committed[k] = true
		c.present[k] = true
	}
	delete(c.dropped, w.key)
	c.mu.Unlock()
	return nil
}

func (c *c06Cache) Add(key string, opts ...cache.Option) (cache.Writer, error) {
	w, err := c.inner.Add(key, opts...)
	if err != nil {
		return nil, err
	}
	return &c06Writer{Writer: w, c: c, key: key}, nil
}

func (c *c06Cache) Close() error { return c.inner.Close() }

func (c *c06Cache) drop(f fetcher, k [2]int64) {
	c.mu.Lock()
	c.dropped[f.genID(region{k[0], k[1]})] = true
	delete(c.present, k)
	c.mu.Unlock()
}

func c06SortedKeys(m map[[2]int64]bool) [][]int64 {
	out := make([][]int64, 0, len(m))
	for k := range m {
		out = append(out, []int64{k[0], k[1]})
	}
	sort.Slice(out, func(i, j int) bool {
		if out[i][0] != out[j][0] {
			return out[i][0] < out[j][0]
		}
		return out[i][1] < out[j][1]
	})
	return out
}

func (c *c06Cache) snapshot() (cached [][]int64, committedPos []int64) {
	c.mu.Lock()
	defer c.mu.Unlock()
	cached = c06SortedKeys(c.present)
	pos := map[int64]bool{}
	for k := range c.committed {
		for i := k[0]; i <= k[1]; i++ {
			pos[i] = true
		}
	}
	committedPos = make([]int64, 0, len(pos))
	for i := range pos {
		committedPos = append(committedPos, i)
	}
	sort.Slice(committedPos, func(i, j int) bool { return committedPos[i] < committedPos[j] })
	return
}

// ---------------------------------------------------------------- the blob under test

type c06Rig struct {
	size, chunk int64
	srv         *c06Server
	cache       *c06Cache
	f           *httpFetcher
	b           *blob
	log         *c06Log
}

func c06Contents(size int64) []byte {
	p := make([]byte, size)
	for i := range p {
		p[i] = byte(i + 1) // injective in i, never 0xFF for the sizes used (<= 250)
	}
	return p
}

func c06NewRig(size, chunk, prefetch int64, inner cache.BlobCache, log *c06Log) *c06Rig {
	srv := &c06Server{contents: c06Contents(size), log: log, refreshOK: true}
	f := &httpFetcher{url: c06RedirURL + "0", blobURL: c06BlobURL, tr: srv}
	c := c06NewCache(inner, f, size, log)
	b := makeBlob(f, size, chunk, prefetch, c, time.Now(), time.Hour, &Resolver{}, 30*time.Second)
	return &c06Rig{size: size, chunk: chunk, srv: srv, cache: c, f: f, b: b, log: log}
}

func (r *c06Rig) project(p []byte) []int64 {
	out := make([]int64, len(p))
	for i, v := range p {
		if v >= 1 && int64(v) <= r.size {
			out[i] = int64(v) - 1
		} else {
			out[i] = -1
		}
	}
	return out
}

func (r *c06Rig) regions() [][]int64 {
	r.b.fetchedRegionSetMu.Lock()
	defer r.b.fetchedRegionSetMu.Unlock()
	out := make([][]int64, len(r.b.fetchedRegionSet.rs))
	for i, g := range r.b.fetchedRegionSet.rs {
		out[i] = []int64{g.b, g.e}
	}
	return out
}

// returnEvent records the result of a call. The FetchedSize sample, the region set and the commits seen by the
// recording cache are read inside the log mutex (in this order), so their order in the log is their real order.
func (r *c06Rig) returnEvent(who, op string, off, ln int64, n int, err error, p []byte, quiet bool) {
	ec := ""
	if err != nil {
		ec = "err"
	}
	r.log.mu.Lock()
	fetched := r.b.FetchedSize()
	regs := r.regions()
	cached, committed := r.cache.snapshot()
	r.log.emitLocked(map[string]any{"ev": "Return", "r": who, "op": op, "off": off, "len": ln, "n": n, "err": ec,
		"buf": r.project(p), "fetched": fetched, "regions": regs, "cached": cached, "committed": committed,
		"single": r.f.isSingleRangeMode(), "quiet": quiet})
	r.log.mu.Unlock()
}

func (r *c06Rig) call(who, op string, off, ln int64, quiet bool) {
	if op == "read" {
		p := bytes.Repeat([]byte{0xFF}, int(ln))
		n, err := r.b.ReadAt(p, off)
		r.returnEvent(who, op, off, ln, n, err, p, quiet)
		return
	}
	err := r.b.Cache(off, ln)
	r.returnEvent(who, op, off, ln, 0, err, nil, quiet)
}

// ---------------------------------------------------------------- R: replay of TLC walks

type c06Step struct {
	A struct {
		Act  string  `json:"act"`
		R    string  `json:"r"`
		Op   string  `json:"op"`
		Off  int64   `json:"off"`
		Len  int64   `json:"len"`
		Pers string  `json:"pers"`
		K    []int64 `json:"k"`
		Res  string  `json:"res"`
	} `json:"a"`
	Size  int64 `json:"size"`
	Chunk int64 `json:"chunk"`
}

type c06Job struct {
	Out   string      `json:"out"`
	Walks [][]c06Step `json:"walks"`
}

func TestVerifC06Replay(t *testing.T) {
	in := os.Getenv("VERIF_IN")
	if in == "" {
		t.Skip("VERIF_IN not set")
	}
	raw, err := os.ReadFile(in)
	if err != nil {
		t.Fatal(err)
	}
	var jobs []c06Job
	if err := json.Unmarshal(raw, &jobs); err != nil {
		t.Fatal(err)
	}
	for _, job := range jobs {
		log := c06NewLog(t, job.Out)
		for wi, walk := range job.Walks {
			if len(walk) == 0 {
				continue
			}
			rig := c06NewRig(walk[0].Size, walk[0].Chunk, 0, cache.NewMemoryCache(), log)
			rig.srv.slow = wi%2 == 1
			log.emit(map[string]any{"ev": "Reset", "size": rig.size, "chunk": rig.chunk})
			for i := 0; i < len(walk); i++ {
				st := walk[i]
				switch st.A.Act {
				case "CacheLoss":
					k := [2]int64{st.A.K[0], st.A.K[1]}
					rig.cache.drop(rig.f, k)
					log.emit(map[string]any{"ev": "Loss", "k": []int64{k[0], k[1]}})
				case "Call":
					// the environment's choices up to the Return of this call: server script, failing commit
					var script []string
					for j := i + 1; j < len(walk) && walk[j].A.Act != "Return"; j++ {
						switch walk[j].A.Act {
						case "Fetch":
							script = append(script, walk[j].A.Pers)
						case "ReceiveChunk":
							if walk[j].A.Res == "commitfail" {
								rig.cache.mu.Lock()
								rig.cache.failNext[[2]int64{walk[j].A.K[0], walk[j].A.K[1]}] = true
								rig.cache.mu.Unlock()
							}
						}
					}
					rig.srv.mu.Lock()
					rig.srv.script = script
					rig.srv.mu.Unlock()
					log.emit(map[string]any{"ev": "Call", "r": st.A.R, "op": st.A.Op, "off": st.A.Off, "len": st.A.Len})
					rig.call(st.A.R, st.A.Op, st.A.Off, st.A.Len, true)
					rig.cache.mu.Lock()
					rig.cache.failNext = map[[2]int64]bool{}
					rig.cache.mu.Unlock()
				}
			}
		}
		log.f.Close()
	}
}

// ---------------------------------------------------------------- R: the real regionSet against RegionSet.tla

type c06RSStep struct {
	Act string `json:"act"`
	R   struct {
		B int64 `json:"b"`
		E int64 `json:"e"`
	} `json:"r"`
}

// TestVerifC06RegionSet replays walks over the state graph of RegionSetCheck on a real regionSet: rs.add(region{b,e}),
// then the slice rs.rs and rs.totalSize() are recorded as they are.
func TestVerifC06RegionSet(t *testing.T) {
	in, out := os.Getenv("VERIF_RS_IN"), os.Getenv("VERIF_RS_OUT")
	if in == "" || out == "" {
		t.Skip("VERIF_RS_IN/VERIF_RS_OUT not set")
	}
	raw, err := os.ReadFile(in)
	if err != nil {
		t.Fatal(err)
	}
	var walks [][]c06RSStep
	if err := json.Unmarshal(raw, &walks); err != nil {
		t.Fatal(err)
	}
	log := c06NewLog(t, out)
	defer log.f.Close()
	for _, w := range walks {
		var rs regionSet
		log.emit(map[string]any{"ev": "Reset"})
		for _, st := range w {
			rs.add(region{st.R.B, st.R.E})
			cur := make([][]int64, len(rs.rs))
			for i, g := range rs.rs {
				cur[i] = []int64{g.b, g.e}
			}
			log.emit(map[string]any{"ev": "Add", "b": st.R.B, "e": st.R.E, "rs": cur, "total": rs.totalSize()})
		}
	}
}

// ---------------------------------------------------------------- T: free-running goroutines

func TestVerifC06Free(t *testing.T) {
	out := os.Getenv("VERIF_FREE_OUT")
	if out == "" {
		t.Skip("VERIF_FREE_OUT not set")
	}
	seed, _ := strconv.ParseInt(os.Getenv("VERIF_SEED"), 10, 64)
	ntraces, _ := strconv.Atoi(os.Getenv("VERIF_FREE_TRACES"))
	if ntraces == 0 {
		ntraces = 20
	}
	nops, _ := strconv.Atoi(os.Getenv("VERIF_FREE_OPS"))
	if nops == 0 {
		nops = 8
	}
	log := c06NewLog(t, out)
	defer log.f.Close()
	stats := map[string]int{}
	for tr := 0; tr < ntraces; tr++ {
		rng := rand.New(rand.NewSource(seed*1000003 + int64(tr)))
		chunk := int64(1 + rng.Intn(4))
		size := int64(rng.Intn(int(6*chunk) + 2))
		if tr%7 == 0 {
			size = chunk * int64(1+rng.Intn(4)) // exact multiples
		}
		prefetch := int64(0)
		if rng.Intn(2) == 0 {
			prefetch = chunk * int64(2+rng.Intn(2))
		}
		var inner cache.BlobCache
		kind := "memory"
		if tr%2 == 0 {
			kind = "directory"
			dir, err := os.MkdirTemp(os.Getenv("VERIF_SCRATCH"), "c06dir")
			if err != nil {
				t.Fatal(err)
			}
			dc, err := cache.NewDirectoryCache(dir, cache.DirectoryCacheConfig{MaxLRUCacheEntry: 1 + rng.Intn(2), MaxCacheFds: 1 + rng.Intn(2), SyncAdd: rng.Intn(2) == 0})
			if err != nil {
				t.Fatal(err)
			}
			inner = dc
			defer os.RemoveAll(dir)
		} else {
			inner = cache.NewMemoryCache()
		}
		rig := c06NewRig(size, chunk, prefetch, inner, log)
		rig.srv.rng = rand.New(rand.NewSource(rng.Int63()))
		rig.srv.free = []string{"multi", "multi", "multi", "multi", "multirev", "super", "super", "whole", "first", "half", "short", "shift", "e400", "e403", "e403", "e403f", "err"}
		rig.srv.slow = rng.Intn(2) == 0
		rig.srv.delay = time.Duration(rng.Intn(300)) * time.Microsecond
		log.emit(map[string]any{"ev": "Reset", "size": size, "chunk": chunk, "prefetch": prefetch, "cache": kind})
		// prelude of every second trace with at least 5 chunks: first chunk, last chunk, then one in the middle, so that
		// the region set has to insert between two non-adjacent regions (honest server, nobody else running)
		if nchunks := (size + chunk - 1) / chunk; tr%2 == 1 && nchunks >= 5 {
			rig.srv.mu.Lock()
			rig.srv.script = []string{"multi", "multi", "multi", "multi"}
			rig.srv.mu.Unlock()
			mid := chunk * (2 + rng.Int63n(nchunks-4)) // neither adjacent to the first nor to the last chunk
			rig.call("pre", "read", 0, 1, true)
			rig.call("pre", "read", size-1, 1, true)
			rig.call("pre", "read", mid, 1, true)
			rig.srv.mu.Lock()
			rig.srv.script = nil
			rig.srv.mu.Unlock()
			stats["preludes"]++
		}
		ng := 3 + rng.Intn(4)
		var wg sync.WaitGroup
		// a few hot (off,len) pairs make goroutines ask for the same chunk sets (shared single-flight fetches)
		hot := make([][2]int64, 2)
		for i := range hot {
			hot[i] = [2]int64{int64(rng.Intn(int(size) + 2)), int64(rng.Intn(int(size) + 3))}
		}
		for g := 0; g < ng; g++ {
			grng := rand.New(rand.NewSource(rng.Int63()))
			who := "g" + strconv.Itoa(g)
			wg.Add(1)
			go func() {
				defer wg.Done()
				for i := 0; i < nops; i++ {
					off, ln := int64(grng.Intn(int(size)+2)), int64(grng.Intn(int(size)+3))
					if grng.Intn(3) == 0 {
						h := hot[grng.Intn(len(hot))]
						// same chunks, possibly different bytes of them
						off, ln = h[0], h[1]
					}
					switch x := grng.Intn(10); {
					case x < 7:
						rig.call(who, "read", off, ln, false)
					case x < 9:
						if ln == 0 {
							ln = 1
						}
						rig.call(who, "cache", off, ln, false)
					default:
						// cache loss between fetch and copy: drop a random chunk
						if size > 0 {
							b := (grng.Int63n(size) / chunk) * chunk
							e := b + chunk - 1
							if e >= size {
								e = size - 1
							}
							rig.cache.drop(rig.f, [2]int64{b, e})
						}
					}
				}
			}()
		}
		wg.Wait()
		// quiescent: an honest server, the whole blob (and beyond) must come back exactly
		rig.srv.mu.Lock()
		rig.srv.free = []string{"multi"}
		stats["requests"] += rig.srv.nreq
		rig.srv.mu.Unlock()
		rig.call("final", "read", 0, size+1, true)
		stats["traces"]++
		rig.b.Close()
	}
	t.Logf("c06 free run: %v, %d events", stats, log.n)
}

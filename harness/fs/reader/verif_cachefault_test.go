//go:build verif

package reader

// Extra stage of the C11 check (ChunkCache.tla / ChunkCacheMonitor): the way fs/reader uses the chunk cache when
// persisting a committed chunk FAILS (the shard directory cannot be created). Whatever the caller does on that error
// path, a later hit must still be exactly a committed value (or a miss), never a recycled buffer.
// The driver only executes and records; TLC's monitor decides.

import (
	"encoding/json"
	"os"
	"path/filepath"
	"testing"

	"github.com/containerd/stargz-snapshotter/cache"
)

const c11PieceLen = 4

func c11Piece(w, i int) []byte { return []byte{byte(w), byte(w >> 8), byte(i), byte(0xA0 ^ w ^ i)} }

func c11Project(b []byte) (val, n int) {
	if len(b) == 0 {
		return 0, 0
	}
	n = (len(b) + c11PieceLen - 1) / c11PieceLen
	if len(b)%c11PieceLen != 0 {
		return -1, n
	}
	val = int(b[0]) | int(b[1])<<8
	for i := 0; i < n; i++ {
		p := b[i*c11PieceLen : (i+1)*c11PieceLen]
		w := int(p[0]) | int(p[1])<<8
		if w != val || int(p[2]) != i+1 || p[3] != byte(0xA0^w^(i+1)) {
			return -1, n
		}
	}
	return val, n
}

func TestVerifC11CacheFault(t *testing.T) {
	out := os.Getenv("VERIF_FAULT_OUT")
	if out == "" {
		t.Skip("VERIF_FAULT_OUT not set")
	}
	f, err := os.Create(out)
	if err != nil {
		t.Fatal(err)
	}
	defer f.Close()
	enc := json.NewEncoder(f)
	type ev map[string]any
	keys := []string{"aa1", "bb2", "cc3", "dd4", "ee5", "ff6"}
	for round := 0; round < 8; round++ {
		dir := filepath.Join(t.TempDir(), "c")
		c, err := cache.NewDirectoryCache(dir, cache.DirectoryCacheConfig{
			MaxLRUCacheEntry: 1 + round%3, MaxCacheFds: 1 + round%2, SyncAdd: round%4 != 3})
		if err != nil {
			t.Fatal(err)
		}
		// persisting any key of the first three shards fails: the shard "directory" is a regular file
		for _, k := range keys[:3] {
			if err := os.WriteFile(filepath.Join(dir, k[:2]), []byte("x"), 0600); err != nil {
				t.Fatal(err)
			}
		}
		gr := &reader{cache: c}
		enc.Encode(ev{"ev": "Reset", "cfg": "fs/reader cacheData with failing persistence"}) //nolint
		w := 0
		read := func(k string) {
			r, err := c.Get(k)
			if err != nil {
				return
			}
			buf := make([]byte, 256)
			n, _ := r.ReadAt(buf, 0)
			v, cnt := c11Project(buf[:n])
			enc.Encode(ev{"ev": "Read", "k": k, "res": ev{"val": v, "n": cnt, "err": false}}) //nolint
			r.Close()
		}
		for step := 0; step < 12; step++ {
			k := keys[(step*5+round)%len(keys)]
			w++
			n := 1 + (step+round)%3
			var data []byte
			for i := 1; i <= n; i++ {
				data = append(data, c11Piece(w, i)...)
			}
			enc.Encode(ev{"ev": "AddOpen", "w": w, "k": k, "len": n}) //nolint
			enc.Encode(ev{"ev": "CommitBegin", "w": w})                 //nolint
			gr.cacheData(data, k)
			read(k)
			for _, k2 := range keys {
				read(k2)
			}
		}
		c.Close()
	}
}

//go:build verif

package reader

// Entry points of the C01 driver (body in verif_verify.go) for the in-memory metadata store.

import (
	"os"
	"testing"

	memorymetadata "github.com/containerd/stargz-snapshotter/metadata/memory"
)

func TestVerifC01Replay(t *testing.T) {
	if os.Getenv("VERIF_IN") == "" {
		t.Skip("VERIF_IN not set")
	}
	C01Replay(t, memorymetadata.NewReader, "memory")
}

func TestVerifC01Free(t *testing.T) {
	if os.Getenv("VERIF_FREE_OUT") == "" {
		t.Skip("VERIF_FREE_OUT not set")
	}
	C01Free(t, memorymetadata.NewReader, "memory")
}

func TestVerifC01Sweep(t *testing.T) {
	if os.Getenv("VERIF_SWEEP_OUT") == "" {
		t.Skip("VERIF_SWEEP_OUT not set")
	}
	C01Sweep(t, memorymetadata.NewReader, "memory")
}

//go:build verif

package fs

// Caller discipline for property C13 (TaskMgr.tla): the prioritized counter of the background task manager stands
// for "a prioritized task is in progress", so a caller has to end every prioritized task it begins, on every path.
// This driver runs filesystem.Check through all its paths (fake layer, failing blob check / refresh / sources) on a
// real BackgroundTaskManager, records the task.Do / task.Done hook events between CallBegin / CallEnd marks, and then
// invokes a background task that must complete once the calls are over. TLC decides (TaskMgrMonitor:
// MonCallersBalanced, MonAllReturned; TaskMgrTrace for conformance).

import (
	"context"
	"encoding/json"
	"fmt"
	"os"
	"sync"
	"testing"
	"time"

	"github.com/containerd/containerd/v2/pkg/reference"
	"github.com/containerd/stargz-snapshotter/fs/layer"
	"github.com/containerd/stargz-snapshotter/fs/remote"
	"github.com/containerd/stargz-snapshotter/fs/source"
	"github.com/containerd/stargz-snapshotter/task"
	"github.com/containerd/stargz-snapshotter/util/verifhook"
	fusefs "github.com/hanwen/go-fuse/v2/fs"
	digest "github.com/opencontainers/go-digest"
	ocispec "github.com/opencontainers/image-spec/specs-go/v1"
)

type vLayer struct {
	size, fetched                 int64
	checkErr, refreshErr, waitErr error
}

func (l *vLayer) Info() layer.Info                                    { return layer.Info{Size: l.size, FetchedSize: l.fetched} }
func (l *vLayer) RootNode(uint32) (fusefs.InodeEmbedder, error)       { return nil, nil }
func (l *vLayer) Verify(tocDigest digest.Digest) error                { return nil }
func (l *vLayer) SkipVerify()                                         {}
func (l *vLayer) Prefetch(prefetchSize int64) error                   { return nil }
func (l *vLayer) ReadAt([]byte, int64, ...remote.Option) (int, error) { return 0, fmt.Errorf("fail") }
func (l *vLayer) WaitForPrefetchCompletion() error                    { return l.waitErr }
func (l *vLayer) BackgroundFetch() error                              { return nil }
func (l *vLayer) Check() error                                        { return l.checkErr }
func (l *vLayer) Refresh(ctx context.Context, hosts source.RegistryHosts, refspec reference.Spec, desc ocispec.Descriptor) error {
	return l.refreshErr
}
func (l *vLayer) Done()        {}
func (l *vLayer) Close() error { return nil }

type cev struct {
	Ev    string `json:"ev"`
	I     int    `json:"i"`
	N     int    `json:"n"`
	Tasks int    `json:"tasks"`
	Ts    int    `json:"ts"`
	Cx    int    `json:"cx"`
}

var taskEvents = map[string]string{
	"task.Do": "Do", "task.Done": "Done", "task.Broadcast": "Broadcast", "task.CondWait": "CondWait",
	"task.Decided": "Decided", "task.Notified": "Notified", "task.BodyDone": "BodyDone",
	"task.Decr": "Expire", "task.Bcast": "DecrEnd", "task.Load": "Load", "task.CondLock": "CondLock",
	"task.Acquire": "Acquire", "task.Decide": "Acquired", "task.Release": "Release", "task.Select": "Select",
}

func TestVerifTaskCallers(t *testing.T) {
	out := os.Getenv("VERIF_CALLERS_OUT")
	if out == "" {
		t.Skip("VERIF_CALLERS_OUT not set")
	}
	f, err := os.Create(out)
	if err != nil {
		t.Fatal(err)
	}
	defer f.Close()
	w := json.NewEncoder(f)
	fail := fmt.Errorf("failed")
	type scen struct {
		name       string
		l          *vLayer // nil: mountpoint not registered
		sourcesErr error
		noprefetch bool
	}
	scens := []scen{
		{name: "unregistered"},
		{name: "fully-cached", l: &vLayer{size: 1, fetched: 1}},
		{name: "check-ok", l: &vLayer{size: 2, fetched: 1}},
		{name: "check-ok-wait-fails", l: &vLayer{size: 2, fetched: 1, waitErr: fail}},
		{name: "check-ok-noprefetch", l: &vLayer{size: 2, fetched: 1}, noprefetch: true},
		{name: "check-fails-refresh-ok", l: &vLayer{size: 2, fetched: 1, checkErr: fail}},
		{name: "check-fails-refresh-fails", l: &vLayer{size: 2, fetched: 1, checkErr: fail, refreshErr: fail}},
		{name: "check-fails-no-sources", l: &vLayer{size: 2, fetched: 1, checkErr: fail}, sourcesErr: fail},
	}
	period := time.Millisecond
	for _, sc := range scens {
		tm := task.NewBackgroundTaskManager(1, period)
		var mu sync.Mutex
		base := time.Now()
		var evs []cev
		var invoker int64
		rec := func(name string, kv ...any) {
			if len(kv) == 0 || kv[0] != any(tm) || taskEvents[name] == "" {
				return
			}
			mu.Lock()
			e := cev{Ev: taskEvents[name], Ts: int(time.Since(base) / time.Microsecond)}
			if verifhook.Goid() == invoker {
				e.I = 1
			}
			if name == "task.Decided" {
				e.Tasks = int(kv[1].(int64))
			}
			evs = append(evs, e)
			mu.Unlock()
		}
		mark := func(ev string, i, n int) {
			mu.Lock()
			evs = append(evs, cev{Ev: ev, I: i, N: n, Ts: int(time.Since(base) / time.Microsecond)})
			mu.Unlock()
		}
		verifhook.SetEvent(rec)
		verifhook.SetGate(rec)
		fsys := &filesystem{
			layer:                 map[string]layer.Layer{},
			backgroundTaskManager: tm,
			noprefetch:            sc.noprefetch,
			getSources: func(labels map[string]string) ([]source.Source, error) {
				if sc.sourcesErr != nil {
					return nil, sc.sourcesErr
				}
				return []source.Source{{}}, nil
			},
		}
		if sc.l != nil {
			fsys.layer["mp"] = sc.l
		}
		for k := 0; k < 2; k++ { // twice: a leak of the first call is still there after the second
			mark("CallBegin", 0, 0)
			fsys.Check(context.Background(), "mp", nil)
			mark("CallEnd", 0, 0)
		}
		// prioritized work has stopped: a background task invoked now must complete
		returned := make(chan struct{})
		go func() {
			mu.Lock()
			invoker = verifhook.Goid()
			mu.Unlock()
			tm.InvokeBackgroundTask(func(ctx context.Context) {
				mark("BodyBegin", 1, 1)
				mark("BodyEnd", 1, 1)
			}, 24*time.Hour)
			mark("Return", 1, 0)
			close(returned)
		}()
		select {
		case <-returned:
		case <-time.After(10 * time.Second):
			mark("Stuck", 1, 0)
		}
		// let the delayed decrements of this manager finish so that the trace is complete
		for end := time.Now().Add(5 * time.Second); time.Now().Before(end); time.Sleep(200 * time.Microsecond) {
			mu.Lock()
			nd, nb := 0, 0
			for _, e := range evs {
				if e.Ev == "Done" {
					nd++
				} else if e.Ev == "Broadcast" {
					nb++
				}
			}
			mu.Unlock()
			if nb >= nd {
				break
			}
		}
		verifhook.SetEvent(nil)
		verifhook.SetGate(nil)
		mu.Lock()
		w.Encode(cev{Ev: "Reset"})
		for _, e := range evs {
			w.Encode(e)
		}
		mu.Unlock()
		t.Logf("scenario %s: %d events", sc.name, len(evs))
	}
}

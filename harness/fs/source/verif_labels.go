//go:build verif

package source

// C20 driver body (Labels.tla). Overlaid into package source; used by the drivers in fs/source (reader
// FromDefaultLabels) and service (readers sourceFromCRILabels and sources(cri, default)).
//
// The driver decides nothing. For every case TLC generated it
//   - materialises the abstract manifest as a real OCI manifest (JSON in an in-memory content provider),
//   - lets containerd's images.ChildrenHandler enumerate the children and the REAL handler
//     (AppendDefaultLabelsHandlerWrapper, or AppendExtraLabelsHandler on top of containerd's
//     snapshotters.AppendInfoHandlerWrapper, as cmd/ctr-remote/commands/rpull.go wires them) annotate them,
//   - validates every produced label with containerd's labels.Validate,
//   - applies the case's tamper steps to the label map,
//   - calls the REAL reader and
//   - records labels (lengths + tokens projected to the model's ids) and the reader's result (projected).
// TLC compares the record with the specification (LabelsTrace) and evaluates the C20 formulas on it (LabelsMonitor).

import (
	"bufio"
	"bytes"
	"context"
	"crypto/sha256"
	"crypto/sha512"
	"encoding/json"
	"fmt"
	"os"
	"sort"
	"strconv"
	"strings"

	"github.com/containerd/containerd/v2/core/content"
	"github.com/containerd/containerd/v2/core/images"
	"github.com/containerd/containerd/v2/pkg/labels"
	"github.com/containerd/containerd/v2/pkg/reference"
	ctdsnapshotters "github.com/containerd/containerd/v2/pkg/snapshotters"
	"github.com/containerd/stargz-snapshotter/fs/config"
	digest "github.com/opencontainers/go-digest"
	"github.com/opencontainers/image-spec/specs-go"
	ocispec "github.com/opencontainers/image-spec/specs-go/v1"
)

type verifTab struct {
	ULen           []int    `json:"ulen"`
	ULenMid        int      `json:"ulenmid"`
	ULenBig        int      `json:"ulenbig"`
	BigFrom        int      `json:"bigfrom"`
	ExactFrom      int      `json:"exactfrom"`
	RefLen         []int    `json:"reflen"`
	RefStr         []string `json:"refstr"` // "" = abstract reference of length reflen[i]; otherwise the exact string
	RefVariants    int      `json:"refvariants"`
	ManifestDigest int      `json:"manifestdigest"`
	Pf             []struct {
		V   string `json:"v"`
		Len int    `json:"len"`
	} `json:"pf"`
	DLen          int      `json:"dlen"`
	DLenBig       int      `json:"dlenbig"`
	BigDigestFrom int      `json:"bigdigestfrom"`
	TKeys         []string `json:"tkeys"`
	NVariants     int      `json:"nvariants"`
	MaxSize       int      `json:"maxsize"`
}

type verifPre struct {
	K string `json:"k"`
	U int    `json:"u"`
}

type verifEntry struct {
	D       int        `json:"d"`
	URLs    []int      `json:"urls"`
	IsLayer bool       `json:"isLayer"`
	Pre     []verifPre `json:"pre"` // annotations the descriptor already carries in the manifest
}

type verifTamper struct {
	Op  string `json:"op"`
	Key int    `json:"key"`
	J   int    `json:"j"`
	Var int    `json:"var"`
}

type verifCase struct {
	ID     int           `json:"id"`
	Family string        `json:"family"`
	Man    []verifEntry  `json:"man"`
	Ref    int           `json:"ref"`
	Pf     int           `json:"pf"`
	Fl     string        `json:"fl"`
	T      int           `json:"t"`
	Tam    []verifTamper `json:"tam"`
	Rd     string        `json:"rd"`
}

type verifInput struct {
	Tab   verifTab          `json:"tab"`
	Cases []json.RawMessage `json:"cases"`
}

type verifLabel struct {
	Len   int   `json:"len"`
	KLen  int   `json:"klen"`
	Items []int `json:"items"`
	Valid bool  `json:"valid"`
}

type verifNeigh struct {
	D    int   `json:"d"`
	URLs []int `json:"urls"`
}

type verifRes struct {
	OK     bool         `json:"ok"`
	Ref    int          `json:"ref"`
	Digest int          `json:"digest"`
	URLs   []int        `json:"urls"`
	Neigh  []verifNeigh `json:"neigh"`
}

type verifEvent struct {
	ID     int                   `json:"id"`
	Case   json.RawMessage       `json:"case"`
	WL     map[string]verifLabel `json:"wl"`     // labels as the handler wrote them
	TL     map[string][]int      `json:"tl"`     // labels handed to the reader (after tampering), tokens only
	TLA    map[string][]int      `json:"tla"`    // the same map after the first read
	Res2   verifRes              `json:"res2"`   // what a second read of that same map returns
	Res    verifRes              `json:"res"`    // reader result
	Head   int                   `json:"head"`   // digest id of Manifest.Layers[0] of the result (0 when rejected)
	PfRead int                   `json:"pfread"` // prefetch id obtained the way fs.Mount parses the label (0: absent/unparsable/unknown)
	Err    string                `json:"err"`
}

const verifUnknown = -9999

type verifMemProvider map[digest.Digest][]byte

type verifReaderAt struct{ *bytes.Reader }

func (verifReaderAt) Close() error  { return nil }
func (r verifReaderAt) Size() int64 { return r.Reader.Size() }
func (p verifMemProvider) ReaderAt(_ context.Context, desc ocispec.Descriptor) (content.ReaderAt, error) {
	b, ok := p[desc.Digest]
	if !ok {
		return nil, fmt.Errorf("verif: blob %v not found", desc.Digest)
	}
	return verifReaderAt{bytes.NewReader(b)}, nil
}

type verifWorld struct {
	tab     verifTab
	tok2id  map[string]int // every spelling the driver can produce -> model token
	mfDgst  digest.Digest
	pfByVal map[int64]int
}

// digest ids in [verifBigDigestFrom, 900) are sha512 digests (135 bytes), all others sha256 (71 bytes)
var verifBigDigestFrom = 1 << 30

func verifDigestOf(id int) digest.Digest {
	if id >= verifBigDigestFrom && id < 900 {
		h := sha512.Sum512([]byte(fmt.Sprintf("verif-c20-blob-%d", id)))
		return digest.NewDigestFromBytes(digest.SHA512, h[:])
	}
	return digest.NewDigestFromBytes(digest.SHA256, sha256sum(fmt.Sprintf("verif-c20-blob-%d", id)))
}

func sha256sum(s string) []byte { h := sha256.Sum256([]byte(s)); return h[:] }

func (w *verifWorld) ulen(u int) int {
	switch {
	case u == 0:
		return 0
	case u >= w.tab.ExactFrom:
		return u - w.tab.ExactFrom
	case u <= len(w.tab.ULen):
		return w.tab.ULen[u-1]
	case u < w.tab.BigFrom:
		return w.tab.ULenMid
	default:
		return w.tab.ULenBig
	}
}

// a URL of exactly the model's length for this id, without ','
func (w *verifWorld) urlOf(u int) string {
	n := w.ulen(u)
	s := fmt.Sprintf("https://mirror.example/%d/", u)
	if n < len(s) {
		// short URLs of the model (length 1): a single character derived from the id
		s = strings.Repeat(string(rune('a'+u%26)), n)
	} else {
		s += strings.Repeat("x", n-len(s))
	}
	w.tok2id[s] = u
	return s
}

// the foreign value a manifest pre-set under a non-URL key: the model's token -u, same length as URL u, and
// neither a reference, a digest nor a number
func (w *verifWorld) garbageOf(u int) string {
	s := fmt.Sprintf("not a value %d ", u)
	if n := w.ulen(u); n > len(s) {
		s += strings.Repeat("?", n-len(s))
	}
	w.tok2id[s] = -u
	return s
}

func (w *verifWorld) refOf(r int) string {
	if r-1 < len(w.tab.RefStr) && w.tab.RefStr[r-1] != "" {
		s := w.tab.RefStr[r-1] // concrete shape: byte for byte what the specification names
		w.tok2id[s] = r
		return s
	}
	n := w.tab.RefLen[r-1]
	head := fmt.Sprintf("registry.example/r%d/", r)
	tail := ":v1"
	s := head + strings.Repeat("a", n-len(head)-len(tail)) + tail
	w.tok2id[s] = r
	return s
}

// malformed spellings; every one must be rejected by digest.Parse / reference.Parse (checked at start)
func verifCorruptDigest(s string, v int) string {
	switch v {
	case 1:
		return s[:40] // cut in the middle of the hex part
	case 2:
		return s[:len(s)-1] + "z"
	case 3:
		return s[:7] + strings.ToUpper(s[7:])
	default:
		return "sha999:" + s[7:]
	}
}

func verifCorruptRef(s string, v int) string {
	switch v {
	case 1:
		return "https://" + s
	case 2:
		return "/" + s
	case 3:
		return "registry%zz.example/" + s
	case 4:
		return "[::1/" + s
	// host-less values: not references as containerd writes them (reference.Parse requires a host)
	case 5:
		return "ubuntu:22.04"
	case 6:
		return "app:v1"
	default:
		return " "
	}
}

func (w *verifWorld) project(v string) []int {
	if v == "" {
		return []int{}
	}
	var out []int
	for _, t := range strings.Split(v, ",") {
		if t == "" {
			out = append(out, 0)
		} else if id, ok := w.tok2id[t]; ok {
			out = append(out, id)
		} else {
			out = append(out, verifUnknown)
		}
	}
	return out
}

func (w *verifWorld) projectURLs(urls []string) []int {
	out := []int{}
	for _, u := range urls {
		if u == "" {
			out = append(out, 0)
		} else if id, ok := w.tok2id[u]; ok {
			out = append(out, id)
		} else {
			out = append(out, verifUnknown)
		}
	}
	return out
}

func (w *verifWorld) digestID(d digest.Digest) int {
	if d == w.mfDgst {
		return w.tab.ManifestDigest
	}
	if id, ok := w.tok2id[d.String()]; ok {
		return id
	}
	return verifUnknown
}

const (
	verifLayerMT    = ocispec.MediaTypeImageLayerGzip
	verifNonLayerMT = "application/vnd.in-toto+json" // what buildkit attestation manifests list under "layers"
)

// VerifRunLabelCases executes the cases of the input file with the given readers and writes one ndjson event per case.
func VerifRunLabelCases(inPath, outPath string, readers map[string]GetSources) error {
	raw, err := os.ReadFile(inPath)
	if err != nil {
		return err
	}
	var in verifInput
	if err := json.Unmarshal(raw, &in); err != nil {
		return err
	}
	if in.Tab.BigDigestFrom > 0 {
		verifBigDigestFrom = in.Tab.BigDigestFrom
		if len(verifDigestOf(verifBigDigestFrom).String()) != in.Tab.DLenBig {
			return fmt.Errorf("verif: long digest length does not match the table")
		}
		for v := 1; v <= 4; v++ {
			if _, err := digest.Parse(verifCorruptDigest(verifDigestOf(verifBigDigestFrom).String(), v)); err == nil {
				return fmt.Errorf("verif: long digest spelling %d is accepted by digest.Parse", v)
			}
		}
		if _, err := digest.Parse(verifDigestOf(verifBigDigestFrom).String()); err != nil {
			return fmt.Errorf("verif: sha512 digests are not parsable here: %v", err)
		}
	}
	if in.Tab.NVariants > 4 || in.Tab.RefVariants > 7 || in.Tab.DLen != len(verifDigestOf(1).String()) {
		return fmt.Errorf("verif: table does not match the driver: %+v", in.Tab)
	}
	// precondition of the projection: every "malformed" spelling really is rejected by the parsers the readers use
	for v := 1; v <= 4; v++ {
		if _, err := digest.Parse(verifCorruptDigest(verifDigestOf(1).String(), v)); err == nil {
			return fmt.Errorf("verif: digest spelling %d is accepted by digest.Parse", v)
		}
	}
	for v := 1; v <= 7; v++ {
		if _, err := reference.Parse(verifCorruptRef("registry.example/r1/aaa:v1", v)); err == nil {
			return fmt.Errorf("verif: ref spelling %d is accepted by reference.Parse", v)
		}
	}
	if _, err := digest.Parse(""); err == nil {
		return fmt.Errorf("verif: empty digest accepted")
	}
	if _, err := reference.Parse(""); err == nil {
		return fmt.Errorf("verif: empty ref accepted")
	}
	f, err := os.Create(outPath)
	if err != nil {
		return err
	}
	defer f.Close()
	bw := bufio.NewWriterSize(f, 1<<20)
	defer bw.Flush()
	enc := json.NewEncoder(bw)
	for _, rc := range in.Cases {
		var c verifCase
		if err := json.Unmarshal(rc, &c); err != nil {
			return err
		}
		rd, ok := readers[c.Rd]
		if !ok {
			return fmt.Errorf("verif: case %d wants reader %q which this driver does not have", c.ID, c.Rd)
		}
		ev, err := verifRunCase(in.Tab, c, rd)
		if err != nil {
			return fmt.Errorf("verif: case %d: %w", c.ID, err)
		}
		ev.Case = rc
		if err := enc.Encode(ev); err != nil {
			return err
		}
	}
	return nil
}

func verifRunCase(tab verifTab, c verifCase, reader GetSources) (*verifEvent, error) {
	ctx := context.Background()
	w := &verifWorld{tab: tab, tok2id: map[string]int{}, pfByVal: map[int64]int{}}
	for i, p := range tab.Pf {
		w.tok2id[p.V] = i + 1
		n, err := strconv.ParseInt(p.V, 10, 64)
		if err != nil || len(p.V) != p.Len {
			return nil, fmt.Errorf("bad prefetch table entry %v", p)
		}
		w.pfByVal[n] = i + 1
	}
	ref := w.refOf(c.Ref)
	pfv, _ := strconv.ParseInt(tab.Pf[c.Pf-1].V, 10, 64)

	// ---- materialise the manifest
	w.tok2id[verifDigestOf(0).String()] = 901 // config digest: never expected in a label
	mf := ocispec.Manifest{
		Versioned: specs.Versioned{SchemaVersion: 2},
		MediaType: ocispec.MediaTypeImageManifest,
		Config:    ocispec.Descriptor{MediaType: ocispec.MediaTypeImageConfig, Digest: verifDigestOf(0), Size: 2},
	}
	for _, e := range c.Man {
		d := verifDigestOf(e.D)
		w.tok2id[d.String()] = e.D
		for v := 1; v <= 4; v++ {
			w.tok2id[verifCorruptDigest(d.String(), v)] = -e.D
		}
		desc := ocispec.Descriptor{MediaType: verifLayerMT, Digest: d, Size: int64(1000 + e.D)}
		if !e.IsLayer {
			desc.MediaType = verifNonLayerMT
		}
		for _, u := range e.URLs {
			desc.URLs = append(desc.URLs, w.urlOf(u))
		}
		for _, p := range e.Pre {
			if desc.Annotations == nil {
				desc.Annotations = map[string]string{}
			}
			if p.K == targetURLsLabel || strings.HasPrefix(p.K, targetImageURLsLabelPrefix) {
				desc.Annotations[p.K] = w.urlOf(p.U)
			} else {
				desc.Annotations[p.K] = w.garbageOf(p.U)
			}
		}
		mf.Layers = append(mf.Layers, desc)
	}
	for v := 1; v <= 7; v++ {
		w.tok2id[verifCorruptRef(ref, v)] = -c.Ref
	}
	mb, err := json.Marshal(mf)
	if err != nil {
		return nil, err
	}
	mdesc := ocispec.Descriptor{MediaType: ocispec.MediaTypeImageManifest, Digest: digest.FromBytes(mb), Size: int64(len(mb))}
	w.mfDgst = mdesc.Digest
	w.tok2id[mdesc.Digest.String()] = tab.ManifestDigest
	provider := verifMemProvider{mdesc.Digest: mb, mf.Config.Digest: []byte("{}")}

	// ---- the real handler chain over containerd's children enumeration
	var h images.Handler = images.ChildrenHandler(provider)
	switch c.Fl {
	case "default":
		h = AppendDefaultLabelsHandlerWrapper(ref, pfv)(h)
	case "extra":
		h = AppendExtraLabelsHandler(pfv, ctdsnapshotters.AppendInfoHandlerWrapper(ref))(h)
	default:
		return nil, fmt.Errorf("unknown flavour %q", c.Fl)
	}
	children, err := h.Handle(ctx, mdesc)
	if err != nil {
		return nil, fmt.Errorf("handler failed: %w", err)
	}
	if len(children) != len(c.Man)+1 || c.T < 2 || c.T > len(children) {
		return nil, fmt.Errorf("children=%d entries=%d t=%d", len(children), len(c.Man), c.T)
	}
	child := children[c.T-1]
	if !images.IsLayerType(child.MediaType) {
		return nil, fmt.Errorf("target child %d is not a layer", c.T)
	}

	ev := &verifEvent{ID: c.ID, WL: map[string]verifLabel{}, TL: map[string][]int{}}
	lbl := map[string]string{}
	for k, v := range child.Annotations {
		lbl[k] = v
		ev.WL[k] = verifLabel{Len: len(v), KLen: len(k), Items: w.project(v), Valid: labels.Validate(k, v) == nil}
	}

	// ---- tamper
	for _, o := range c.Tam {
		if o.Key < 1 || o.Key > len(tab.TKeys) {
			return nil, fmt.Errorf("tamper key %d", o.Key)
		}
		k := tab.TKeys[o.Key-1]
		v, ok := lbl[k]
		if !ok && o.Op != "empty" {
			// the real handler did not write a label the specification expects: nothing to remove or corrupt;
			// the difference is visible to TLC in wl/tl (conformance) and the formulas are evaluated on what was read
			continue
		}
		switch o.Op {
		case "rm":
			delete(lbl, k)
		case "empty":
			lbl[k] = ""
		case "corrupt":
			toks := strings.Split(v, ",")
			if o.J < 1 || o.J > len(toks) {
				return nil, fmt.Errorf("tamper index %d of %d", o.J, len(toks))
			}
			if k == targetRefLabel || k == ctdsnapshotters.TargetRefLabel {
				toks[o.J-1] = verifCorruptRef(toks[o.J-1], o.Var)
			} else {
				toks[o.J-1] = verifCorruptDigest(toks[o.J-1], o.Var)
			}
			lbl[k] = strings.Join(toks, ",")
		default:
			return nil, fmt.Errorf("tamper op %q", o.Op)
		}
	}
	keys := make([]string, 0, len(lbl))
	for k := range lbl {
		keys = append(keys, k)
	}
	sort.Strings(keys)
	for _, k := range keys {
		ev.TL[k] = w.project(lbl[k])
	}

	// ---- prefetch size the way fs.Mount consumes it
	if ps, ok := lbl[config.TargetPrefetchSizeLabel]; ok {
		if n, err := strconv.ParseInt(ps, 10, 64); err == nil {
			ev.PfRead = w.pfByVal[n]
		}
	}

	// ---- the real reader, twice on the SAME map (the snapshotter keeps the map and resolves from it again)
	ev.Res, ev.Head, ev.Err = w.read(reader, lbl)
	ev.TLA = map[string][]int{}
	for k, v := range lbl {
		ev.TLA[k] = w.project(v)
	}
	ev.Res2, _, _ = w.read(reader, lbl)
	return ev, nil
}

func (w *verifWorld) read(reader GetSources, lbl map[string]string) (res verifRes, head int, errs string) {
	res = verifRes{URLs: []int{}, Neigh: []verifNeigh{}}
	srcs, err := reader(lbl)
	if err != nil {
		return res, 0, err.Error()
	}
	if len(srcs) != 1 {
		return res, 0, fmt.Sprintf("verif: reader returned %d sources", len(srcs))
	}
	s := srcs[0]
	res.OK = true
	if id, ok := w.tok2id[s.Name.String()]; ok {
		res.Ref = id
	} else {
		res.Ref = verifUnknown
	}
	res.Digest = w.digestID(s.Target.Digest)
	res.URLs = w.projectURLs(s.Target.URLs)
	if len(s.Manifest.Layers) > 0 {
		head = w.digestID(s.Manifest.Layers[0].Digest)
		for _, n := range s.Manifest.Layers[1:] {
			res.Neigh = append(res.Neigh, verifNeigh{D: w.digestID(n.Digest), URLs: w.projectURLs(n.URLs)})
		}
	}
	return res, head, ""
}

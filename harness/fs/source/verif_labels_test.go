//go:build verif

package source

// C20 driver (Labels.tla): cases whose reader is FromDefaultLabels. See verif_labels.go.

import (
	"os"
	"testing"

	"github.com/containerd/containerd/v2/core/remotes/docker"
	"github.com/containerd/containerd/v2/pkg/reference"
)

func TestVerifLabels(t *testing.T) {
	in, out := os.Getenv("VERIF_IN"), os.Getenv("VERIF_OUT")
	if in == "" || out == "" {
		t.Skip("VERIF_IN / VERIF_OUT not set")
	}
	hosts := func(reference.Spec) ([]docker.RegistryHost, error) { return nil, nil }
	if err := VerifRunLabelCases(in, out, map[string]GetSources{"default": FromDefaultLabels(hosts)}); err != nil {
		t.Fatal(err)
	}
}

//go:build verif

package fs

// Driver of the module Fs (spec/Fs.tla): the REAL filesystem (NewFilesystem) over an in-memory registry, REAL kernel FUSE
// mounts on scratch directories (fs.go has no seam in front of fuse.NewServer; the sandbox has /dev/fuse), labels produced by
// the real source.AppendDefaultLabelsHandlerWrapper.
//
//   TestVerifFsReplay  executes TLC walks of FsGen step by step: every call runs in its own goroutine and is held at the
//                      hooks of fs.go / layer.go / task.go (gates) and at the seams (GetSources, registry) until the walk takes
//                      the corresponding spec step; after every step the implementation state is projected (layer map, kernel
//                      mount table, layer-cache reference counts, closed/verified flags) and recorded.
//   TestVerifFsFree    free-running goroutines with prefetch, background fetch and neighbour pre-resolution on (-race).
//   TestVerifFsE2E     the same filesystem as backend of the real snapshot.NewSnapshotter; call-level walks of Snapshotter.tla.
//
// The driver decides nothing: TLC does (FsTrace / FsMonitor).

import (
	"bufio"
	"bytes"
	"context"
	"encoding/json"
	"errors"
	"fmt"
	"io"
	"math/rand"
	"os"
	"path/filepath"
	"reflect"
	"sort"
	"strconv"
	"strings"
	"sync"
	"testing"
	"time"
	"unsafe"

	"github.com/containerd/containerd/v2/core/images"
	"github.com/containerd/containerd/v2/core/mount"
	"github.com/containerd/containerd/v2/core/remotes/docker"
	"github.com/containerd/containerd/v2/core/snapshots"
	"github.com/containerd/containerd/v2/pkg/reference"
	clog "github.com/containerd/log"
	"github.com/containerd/stargz-snapshotter/estargz"
	"github.com/containerd/stargz-snapshotter/fs/config"
	"github.com/containerd/stargz-snapshotter/fs/layer"
	"github.com/containerd/stargz-snapshotter/fs/remote"
	"github.com/containerd/stargz-snapshotter/fs/source"
	"github.com/containerd/stargz-snapshotter/snapshot"
	"github.com/containerd/stargz-snapshotter/util/testutil"
	"github.com/containerd/stargz-snapshotter/util/verifhook"
	digest "github.com/opencontainers/go-digest"
	ocispec "github.com/opencontainers/image-spec/specs-go/v1"
	"golang.org/x/sys/unix"
)

func init() { clog.SetLevel("panic") }

const (
	xfsGoodRef = "registry.example.com/img/app:latest"
	xfsDeadRef = "dead.example.com/img/app:latest"
)

// ------------------------------------------------------------------------------------------------ blobs, labels

type xfsBlob struct {
	name   string
	data   []byte
	desc   ocispec.Descriptor
	toc    digest.Digest
	files  map[string]string
	key    string // layer cache key under the good reference
	dead   digest.Digest
	labels map[string]map[string]string // with / without neighbour: "solo", "nb"
}

var (
	xfsBlobMu sync.Mutex
	xfsBlobs  = map[string]*xfsBlob{}
)

func xfsGetBlob(name string) *xfsBlob {
	xfsBlobMu.Lock()
	defer xfsBlobMu.Unlock()
	if b, ok := xfsBlobs[name]; ok {
		return b
	}
	files := map[string]string{}
	ents := []testutil.TarEntry{testutil.Dir("d/")}
	for _, f := range []string{"f1", "f2", "f3"} {
		files[f] = strings.Repeat(fmt.Sprintf("<%s of layer %s>", f, name), 150)
		ents = append(ents, testutil.File("d/"+f, files[f]))
	}
	sr, toc, err := testutil.BuildEStargz(ents)
	if err != nil {
		panic(err)
	}
	data, err := io.ReadAll(sr)
	if err != nil {
		panic(err)
	}
	b := &xfsBlob{name: name, data: data, toc: toc, files: files, desc: ocispec.Descriptor{
		MediaType:   ocispec.MediaTypeImageLayerGzip,
		Digest:      digest.FromBytes(data),
		Size:        int64(len(data)),
		Annotations: map[string]string{estargz.TOCJSONDigestAnnotation: toc.String()},
	}}
	b.dead = digest.FromString("dead source of " + name)
	spec, _ := reference.Parse(xfsGoodRef)
	b.key = spec.String() + "/" + b.desc.Digest.String()
	xfsBlobs[name] = b
	return b
}

// xfsLabels: the snapshot labels of layer `name` of an image whose manifest lists `layers`, produced by the real handler wrapper
func xfsLabels(name string, layers []string) map[string]string {
	var children []ocispec.Descriptor
	for _, n := range layers {
		b := xfsGetBlob(n)
		d := b.desc
		d.Annotations = map[string]string{estargz.TOCJSONDigestAnnotation: b.toc.String()}
		children = append(children, d)
	}
	h := source.AppendDefaultLabelsHandlerWrapper(xfsGoodRef, 0)(images.HandlerFunc(
		func(ctx context.Context, desc ocispec.Descriptor) ([]ocispec.Descriptor, error) { return children, nil }))
	out, err := h.Handle(context.Background(), ocispec.Descriptor{MediaType: ocispec.MediaTypeImageManifest})
	if err != nil {
		panic(err)
	}
	for _, c := range out {
		if c.Digest == xfsGetBlob(name).desc.Digest {
			l := map[string]string{}
			for k, v := range c.Annotations {
				l[k] = v
			}
			return l
		}
	}
	panic("xfs: layer not in manifest")
}

const xfsRefLabel = "containerd.io/snapshot/remote/stargz.reference"

// xfsVariant turns the correct labels into the label variant of the spec
func xfsVariant(l map[string]string, lab string) map[string]string {
	switch lab {
	case "bad":
		l[estargz.TOCJSONDigestAnnotation] = digest.FromString("not the TOC").String()
	case "skip":
		delete(l, estargz.TOCJSONDigestAnnotation)
		l[config.TargetSkipVerifyLabel] = "true"
	case "none":
		delete(l, estargz.TOCJSONDigestAnnotation)
	case "malformed":
		delete(l, xfsRefLabel)
	case "mirror":
		l["xfs/mirror"] = "1"
	}
	return l
}

// ------------------------------------------------------------------------------------------------ registry

type xfsRegistry struct {
	w         *xfsWorld
	mu        sync.Mutex
	byDigest  map[digest.Digest]*xfsBlob
	down      map[string]bool // Handle fails
	checkFail map[string]bool // Fetcher.Check fails
	handles   map[string]int
	fetches   map[string]int
}

func (g *xfsRegistry) Handle(ctx context.Context, desc ocispec.Descriptor) (remote.Fetcher, int64, error) {
	g.mu.Lock()
	defer g.mu.Unlock()
	b, ok := g.byDigest[desc.Digest]
	if !ok {
		return nil, 0, fmt.Errorf("xfs registry: unknown blob %v", desc.Digest)
	}
	g.handles[b.name]++
	if g.down[b.name] {
		return nil, 0, fmt.Errorf("xfs registry: %s is unreachable", b.name)
	}
	return &xfsFetcher{g: g, b: b}, int64(len(b.data)), nil
}

func (g *xfsRegistry) set(m map[string]bool, n string, v bool) {
	g.mu.Lock()
	m[n] = v
	g.mu.Unlock()
}

type xfsFetcher struct {
	g *xfsRegistry
	b *xfsBlob
}

func (f *xfsFetcher) Fetch(ctx context.Context, off int64, size int64) (io.ReadCloser, error) {
	if off < 0 || off > int64(len(f.b.data)) {
		return nil, fmt.Errorf("out of range")
	}
	end := off + size
	if end > int64(len(f.b.data)) {
		end = int64(len(f.b.data))
	}
	f.g.mu.Lock()
	f.g.fetches[f.b.name]++
	f.g.mu.Unlock()
	return io.NopCloser(bytes.NewReader(f.b.data[off:end])), nil
}

func (f *xfsFetcher) Check() error {
	w := f.g.w
	if c := w.callOfGoroutine(); c != nil && c.op == "Check" && !w.isFree() {
		w.stop(c.key(), "layercheck", nil) // fs.check -> layer.Check -> blob.Check on the caller's goroutine
	}
	f.g.mu.Lock()
	defer f.g.mu.Unlock()
	if f.g.checkFail[f.b.name] || f.g.down[f.b.name] {
		return fmt.Errorf("xfs registry: connection to %s is broken", f.b.name)
	}
	return nil
}

func (f *xfsFetcher) GenID(off int64, size int64) string {
	return fmt.Sprintf("%s-%d-%d", f.b.name, off, size)
}

func xfsHosts(reference.Spec) ([]docker.RegistryHost, error) {
	return nil, errors.New("xfs driver: no registry hosts")
}

// ------------------------------------------------------------------------------------------------ world

type xfsCfg struct {
	AllowNoVerif bool `json:"allowNoVerif"`
	DisableVerif bool `json:"disableVerif"`
	NoPrefetch   bool `json:"noPrefetch"`
	NoBgFetch    bool `json:"noBgFetch"`
	PreRes       bool `json:"preRes"`
}

type xfsStop struct {
	at      string
	info    map[string]any
	release chan struct{}
}

type xfsCall struct {
	id         int
	op, mp, b  string
	lab        string
	goid       int64
	dos, dones int
	srcErr     error
	events     []map[string]any // map events seen on the caller's goroutine
	err        error
	returned   bool
	started    bool
	waitFrom   time.Time
	mu         sync.Mutex // guards dos, dones, srcErr, events (written by the call's goroutine, read by the driver)
}

func (c *xfsCall) counts() (int, int, error) {
	c.mu.Lock()
	defer c.mu.Unlock()
	return c.dos, c.dones, c.srcErr
}

func (c *xfsCall) key() string { return "c" + strconv.Itoa(c.id) }

type xfsWorld struct {
	cfg    xfsCfg
	root   string
	mps    []string
	blobs  []string
	fs     *filesystem
	fsys   snapshot.FileSystem
	reg    *xfsRegistry
	free   bool
	mu     sync.Mutex
	cond   *sync.Cond
	stops  map[string]*xfsStop
	calls  map[int]*xfsCall
	hid    map[layer.Layer]int
	hobj   []int // handle id -> object id
	oid    map[uintptr]int
	optr   []uintptr
	oany   []any
	oblob  []string
	wdone  map[uintptr]bool // waiter pointer -> closed
	lhit   map[string]int
	log    []map[string]any // free-running event log (order = order of the hook calls)
	mpOf   map[string]string
	target string // name (cache key) of the resolve that belongs to the Mount in flight
	seq    int
}

var (
	xfsByPtr  sync.Map // pointer (fs, task manager, resolver, layer object, waiter) -> *xfsWorld
	xfsByGoid sync.Map // goroutine id -> *xfsCall
	xfsHookMu sync.Mutex
	xfsHooks  int
)

func xfsPtr(v any) uintptr {
	rv := reflect.ValueOf(v)
	if rv.Kind() == reflect.Ptr || rv.Kind() == reflect.UnsafePointer {
		return rv.Pointer()
	}
	return 0
}

func xfsWorldOf(v any) *xfsWorld {
	if w, ok := xfsByPtr.Load(xfsPtr(v)); ok {
		return w.(*xfsWorld)
	}
	return nil
}

func xfsPeek(v reflect.Value, field string) reflect.Value {
	for v.Kind() == reflect.Ptr || v.Kind() == reflect.Interface {
		v = v.Elem()
	}
	f := v.FieldByName(field)
	if !f.IsValid() {
		panic("xfs driver: no field " + field + " in " + v.Type().String())
	}
	return reflect.NewAt(f.Type(), unsafe.Pointer(f.UnsafeAddr())).Elem()
}

func xfsLock(v reflect.Value, field string) *sync.Mutex {
	return (*sync.Mutex)(unsafe.Pointer(xfsPeek(v, field).UnsafeAddr()))
}

func xfsInstallHooks() {
	xfsHookMu.Lock()
	defer xfsHookMu.Unlock()
	xfsHooks++
	if xfsHooks == 1 {
		verifhook.SetEvent(xfsEvent)
		verifhook.SetGate(xfsGate)
	}
}

func xfsRemoveHooks() {
	xfsHookMu.Lock()
	defer xfsHookMu.Unlock()
	xfsHooks--
	if xfsHooks == 0 {
		verifhook.SetEvent(nil)
		verifhook.SetGate(nil)
	}
}

func xfsNewWorld(base string, cfg xfsCfg, mps, blobs []string, silence time.Duration) (*xfsWorld, error) {
	root, err := os.MkdirTemp(base, "xfsw")
	if err != nil {
		return nil, err
	}
	w := &xfsWorld{cfg: cfg, root: root, mps: mps, blobs: blobs, stops: map[string]*xfsStop{}, calls: map[int]*xfsCall{},
		hid: map[layer.Layer]int{}, oid: map[uintptr]int{}, wdone: map[uintptr]bool{}, lhit: map[string]int{}, mpOf: map[string]string{}}
	w.cond = sync.NewCond(&w.mu)
	w.reg = &xfsRegistry{w: w, byDigest: map[digest.Digest]*xfsBlob{}, down: map[string]bool{}, checkFail: map[string]bool{},
		handles: map[string]int{}, fetches: map[string]int{}}
	for _, n := range blobs {
		b := xfsGetBlob(n)
		w.reg.byDigest[b.desc.Digest] = b
	}
	for _, mp := range mps {
		if err := os.MkdirAll(w.dir(mp), 0700); err != nil {
			return nil, err
		}
		w.mpOf[w.dir(mp)] = mp
	}
	c := config.Config{
		ResolveResultEntryTTLSec: 36000,
		PrefetchTimeoutSec:       1,
		NoPrefetch:               cfg.NoPrefetch,
		NoBackgroundFetch:        cfg.NoBgFetch,
		NoPrometheus:             true,
		AllowNoVerification:      cfg.AllowNoVerif,
		DisableVerification:      cfg.DisableVerif,
		BlobConfig:               config.BlobConfig{CheckAlways: true, ChunkSize: 512},
		DirectoryCacheConfig:     config.DirectoryCacheConfig{SyncAdd: true},
	}
	real := source.FromDefaultLabels(xfsHosts)
	getSources := func(labels map[string]string) ([]source.Source, error) {
		c := w.callOfGoroutine()
		if c != nil && !w.isFree() {
			if c.op == "Mount" {
				w.stop(c.key(), "sources", nil)
			} else {
				w.stop(c.key(), "csources", nil)
			}
		}
		src, err := real(labels)
		if c != nil {
			c.mu.Lock()
			c.srcErr = err
			c.mu.Unlock()
		}
		if err == nil && labels["xfs/mirror"] == "1" {
			// a second source in front: a mirror that does not have the blob ("first source that resolves wins")
			dead := src[0]
			dead.Name, _ = reference.Parse(xfsDeadRef)
			for _, b := range w.reg.byDigest {
				if b.desc.Digest == src[0].Target.Digest {
					dead.Target = ocispec.Descriptor{Digest: b.dead, Annotations: src[0].Target.Annotations}
				}
			}
			dead.Manifest = ocispec.Manifest{Layers: []ocispec.Descriptor{dead.Target}}
			src = append([]source.Source{dead}, src...)
		}
		return src, err
	}
	fsys, err := NewFilesystem(filepath.Join(root, "fsroot"), c, WithGetSources(getSources), WithResolveHandler("xfs", w.reg))
	if err != nil {
		return nil, err
	}
	w.fsys = fsys
	w.fs = fsys.(*filesystem)
	if silence > 0 {
		// NewFilesystem hard-codes a 5 s silence period of the task manager; shortened so that background bodies start within a run
		p := xfsPeek(reflect.ValueOf(w.fs.backgroundTaskManager), "prioritizedTaskSilencePeriod")
		p.SetInt(int64(silence))
	}
	xfsByPtr.Store(xfsPtr(w.fs), w)
	xfsByPtr.Store(xfsPtr(w.fs.backgroundTaskManager), w)
	xfsByPtr.Store(xfsPtr(w.fs.resolver), w)
	return w, nil
}

func (w *xfsWorld) dir(mp string) string { return filepath.Join(w.root, "mnt", mp) }

func (w *xfsWorld) isFree() bool {
	w.mu.Lock()
	defer w.mu.Unlock()
	return w.free
}

func (w *xfsWorld) callOfGoroutine() *xfsCall {
	if c, ok := xfsByGoid.Load(verifhook.Goid()); ok {
		return c.(*xfsCall)
	}
	return nil
}

// stop: the calling goroutine arrives at a stop point and waits until the walk takes the step
func (w *xfsWorld) stop(key, at string, info map[string]any) {
	w.mu.Lock()
	if w.free {
		w.mu.Unlock()
		return
	}
	s := &xfsStop{at: at, info: info, release: make(chan struct{})}
	w.stops[key] = s
	w.cond.Broadcast()
	w.mu.Unlock()
	<-s.release
}

// await: wait until the actor `key` has arrived at a stop point
func (w *xfsWorld) await(key string, d time.Duration) *xfsStop {
	deadline := time.Now().Add(d)
	w.mu.Lock()
	defer w.mu.Unlock()
	for w.stops[key] == nil {
		if time.Now().After(deadline) {
			return nil
		}
		w.mu.Unlock()
		time.Sleep(200 * time.Microsecond)
		w.mu.Lock()
	}
	return w.stops[key]
}

func (w *xfsWorld) release(key string) {
	w.mu.Lock()
	s := w.stops[key]
	delete(w.stops, key)
	w.mu.Unlock()
	if s != nil {
		close(s.release)
	}
}

func (w *xfsWorld) setFree() {
	w.mu.Lock()
	w.free = true
	ss := w.stops
	w.stops = map[string]*xfsStop{}
	w.mu.Unlock()
	for _, s := range ss {
		if s.at != "returned" {
			close(s.release)
		}
	}
}

func (w *xfsWorld) logEv(e map[string]any) {
	w.mu.Lock()
	w.seq++
	w.log = append(w.log, e)
	w.mu.Unlock()
}

// ------------------------------------------------------------------------------------------------ hooks

func xfsEvent(name string, kv ...any) {
	if len(kv) == 0 {
		return
	}
	switch name {
	case "task.Do", "task.Done":
		w := xfsWorldOf(kv[0])
		if w == nil {
			return
		}
		c := w.callOfGoroutine()
		if c == nil {
			return
		}
		if name == "task.Do" {
			c.mu.Lock()
			c.dos++
			c.mu.Unlock()
			if w.isFree() {
				w.logEv(map[string]any{"ev": "Do", "c": c.id, "op": c.op, "mp": c.mp})
			}
			return
		}
		c.mu.Lock()
		c.dones++
		c.mu.Unlock()
		if w.isFree() {
			w.logEv(map[string]any{"ev": "Done", "c": c.id, "op": c.op, "mp": c.mp})
			return
		}
		w.stop(c.key(), "done", nil) // lock-free point: the deferred DonePrioritizedTask right before the return
	case "task.Decided":
		w := xfsWorldOf(kv[0])
		if w == nil || !w.isFree() {
			return
		}
		if t := kv[1].(int64); t == 0 {
			w.logEv(map[string]any{"ev": "BgStart", "tasks": int(t)})
		}
	case "fs.map.insert", "fs.map.lookup", "fs.map.delete":
		w := xfsWorldOf(kv[0])
		if w == nil {
			return
		}
		c := w.callOfGoroutine()
		if c == nil {
			return
		}
		var l layer.Layer
		if len(kv) > 2 && kv[2] != nil {
			l, _ = kv[2].(layer.Layer)
			if l != nil && reflect.ValueOf(l).IsNil() {
				l = nil
			}
		}
		c.mu.Lock()
		c.events = append(c.events, map[string]any{"name": name, "key": kv[1].(string), "l": l})
		c.mu.Unlock()
	case "layer.waiter.closed":
		if w := xfsWorldOf(kv[0]); w != nil {
			w.mu.Lock()
			w.wdone[xfsPtr(kv[0])] = true
			w.mu.Unlock()
		}
	}
}

func xfsGate(name string, kv ...any) {
	if len(kv) == 0 {
		return
	}
	switch name {
	case "fs.mount.resolved", "fs.mount.verified", "fs.mount.fuse", "fs.unmount.deleted":
		w := xfsWorldOf(kv[0])
		if w == nil {
			return
		}
		c := w.callOfGoroutine()
		if c == nil {
			return
		}
		info := map[string]any{}
		if len(kv) > 2 {
			info["l"] = kv[2]
		}
		w.stop(c.key(), strings.TrimPrefix(strings.TrimPrefix(name, "fs.mount."), "fs.unmount."), info)
	case "layer.resolve.locked":
		w := xfsWorldOf(kv[0])
		if w == nil {
			return
		}
		nm := kv[1].(string)
		w.mu.Lock()
		var mc *xfsCall
		for _, c := range w.calls {
			if c.op == "Mount" && c.started && !c.returned {
				b := xfsGetBlob(c.b)
				if nm == b.key || strings.HasSuffix(nm, "/"+b.dead.String()) {
					mc = c
				}
			}
		}
		w.mu.Unlock()
		if mc != nil {
			w.stop(mc.key(), "resolve", map[string]any{"name": nm})
		}
	case "layer.resolve.lhit":
		if w := xfsWorldOf(kv[0]); w != nil {
			w.mu.Lock()
			w.lhit[kv[1].(string)]++
			w.mu.Unlock()
		}
	case "layer.resolve.lnew":
		if w := xfsWorldOf(kv[0]); w != nil {
			xfsByPtr.Store(xfsPtr(kv[2]), w)
			xfsByPtr.Store(xfsPeek(reflect.ValueOf(kv[2]), "prefetchWaiter").Pointer(), w)
		}
	case "layer.prefetch.start", "layer.prefetch.fetch", "layer.prefetch.noprefetch":
		// (layers built without prioritized files carry the no-prefetch landmark: their prefetch ends at "noprefetch")
		if w := xfsWorldOf(kv[0]); w != nil {
			at := "fetch"
			if name == "layer.prefetch.start" {
				at = "start"
			}
			w.stop("pf"+strconv.FormatUint(uint64(xfsPtr(kv[0])), 16), at, nil)
		}
	}
}

// ------------------------------------------------------------------------------------------------ projection

type xfsObjObs struct {
	B      string `json:"b"`
	Cached bool   `json:"cached"`
	Refs   int    `json:"refs"` // clients of the layer cache entry (-1: not cached, unknown)
	Closed bool   `json:"closed"`
	Verif  string `json:"verif"`
	Wdone  bool   `json:"wdone"`
}

type xfsObs struct {
	Lmap map[string]int `json:"lmap"`
	Fuse map[string]int `json:"fuse"`
	Hs   []int          `json:"hs"`
	Objs []xfsObjObs    `json:"objs"`
}

// learn: numbers a handle (layerRef) and its layer object in order of first sight
func (w *xfsWorld) learn(l layer.Layer) int {
	w.mu.Lock()
	defer w.mu.Unlock()
	if id, ok := w.hid[l]; ok {
		return id
	}
	lp := xfsPeek(reflect.ValueOf(l), "layer") // embedded *layer of layerRef
	p := lp.Pointer()
	o, ok := w.oid[p]
	if !ok {
		o = len(w.optr) + 1
		w.oid[p] = o
		w.optr = append(w.optr, p)
		w.oany = append(w.oany, lp.Interface())
		bn := "?"
		d := l.Info().Digest
		for _, b := range w.reg.byDigest {
			if b.desc.Digest == d {
				bn = b.name
			}
		}
		w.oblob = append(w.oblob, bn)
	}
	id := len(w.hobj) + 1
	w.hid[l] = id
	w.hobj = append(w.hobj, o)
	return id
}

func xfsMounts() map[string]int {
	res := map[string]int{}
	f, err := os.Open("/proc/self/mountinfo")
	if err != nil {
		return res
	}
	defer f.Close()
	sc := bufio.NewScanner(f)
	sc.Buffer(make([]byte, 1<<20), 1<<20)
	for sc.Scan() {
		fl := strings.Fields(sc.Text())
		if len(fl) > 4 {
			res[fl[4]]++
		}
	}
	return res
}

func (w *xfsWorld) obs() xfsObs {
	o := xfsObs{Lmap: map[string]int{}, Fuse: map[string]int{}, Objs: []xfsObjObs{}}
	ms := xfsMounts()
	w.fs.layerMu.Lock()
	entries := map[string]layer.Layer{}
	for k, v := range w.fs.layer {
		entries[k] = v
	}
	w.fs.layerMu.Unlock()
	for _, mp := range w.mps {
		o.Fuse[mp] = ms[w.dir(mp)]
		o.Lmap[mp] = 0
		if l, ok := entries[w.dir(mp)]; ok {
			o.Lmap[mp] = w.learn(l)
		}
	}
	// the resolver's layer cache: key -> (value, client references)
	lc := xfsPeek(reflect.ValueOf(w.fs.resolver), "layerCache")
	mu := xfsLock(lc, "mu")
	mu.Lock()
	type ent struct {
		p    uintptr
		refs int
	}
	cached := map[uintptr]int{}
	m := xfsPeek(lc, "m")
	for _, k := range m.MapKeys() {
		rc := m.MapIndex(k) // *refCounterWithTimer
		rcc := rc.Elem().FieldByName("refCounter")
		rcm := xfsLock(rcc, "mu")
		rcm.Lock()
		n := int(xfsPeek(rcc, "refCounts").Int())
		v := xfsPeek(rcc, "v")
		rcm.Unlock()
		cached[v.Elem().Pointer()] = n - 1
	}
	mu.Unlock()
	w.mu.Lock()
	defer w.mu.Unlock()
	o.Hs = append([]int{}, w.hobj...)
	for i, p := range w.optr {
		lv := reflect.ValueOf(w.oany[i])
		ob := xfsObjObs{B: w.oblob[i], Refs: -1, Verif: "none"}
		if n, ok := cached[p]; ok {
			ob.Cached, ob.Refs = true, n
		}
		cm := xfsLock(lv, "closedMu")
		cm.Lock()
		ob.Closed = xfsPeek(lv, "closed").Bool()
		cm.Unlock()
		rm := xfsLock(lv, "rMu")
		rm.Lock()
		if !xfsPeek(lv, "r").IsNil() {
			ob.Verif = "skipped"
			if xfsPeek(lv, "verified").Bool() {
				ob.Verif = "verified"
			}
		}
		rm.Unlock()
		ob.Wdone = w.wdone[xfsPeek(lv, "prefetchWaiter").Pointer()]
		o.Objs = append(o.Objs, ob)
	}
	return o
}

func xfsErrClass(op string, err error) string {
	if err == nil {
		return "nil"
	}
	s := err.Error()
	switch {
	case strings.Contains(s, "reference hasn't been passed"), strings.Contains(s, "source must be passed"):
		return "sources"
	case strings.Contains(s, "failed to resolve layer"):
		return "resolve"
	case strings.Contains(s, "invalid stargz layer"), strings.Contains(s, "digest of TOC JSON must be passed"), strings.Contains(s, "invalid TOC digest"):
		return "verify"
	case strings.Contains(s, "failed to get root node"):
		return "rootnode"
	case strings.Contains(s, "layer not registered"):
		return "notreg"
	case strings.Contains(s, "isn't a mountpoint"):
		return "notmp"
	}
	switch op {
	case "Mount":
		return "fuse"
	case "Check":
		return "check"
	}
	return "einval"
}

// ------------------------------------------------------------------------------------------------ calls

func (w *xfsWorld) labelsFor(c *xfsCall) map[string]string {
	layers := []string{c.b}
	if w.cfg.PreRes {
		layers = append([]string{}, w.blobs...)
	}
	return xfsVariant(xfsLabels(c.b, layers), c.lab)
}

func (w *xfsWorld) start(c *xfsCall) {
	w.mu.Lock()
	c.started = true
	w.mu.Unlock()
	ready := make(chan struct{})
	go func() {
		c.goid = verifhook.Goid()
		xfsByGoid.Store(c.goid, c)
		close(ready)
		var err error
		ctx := context.Background()
		switch c.op {
		case "Mount":
			err = w.fsys.Mount(ctx, w.dir(c.mp), w.labelsFor(c))
		case "Check":
			err = w.fsys.Check(ctx, w.dir(c.mp), xfsLabels(w.blobs[0], []string{w.blobs[0]}))
		case "Unmount":
			err = w.fsys.Unmount(ctx, w.dir(c.mp))
		}
		xfsByGoid.Delete(c.goid)
		w.mu.Lock()
		c.err = err
		c.returned = true
		w.stops[c.key()] = &xfsStop{at: "returned", release: make(chan struct{})}
		w.mu.Unlock()
	}()
	<-ready
}

func (w *xfsWorld) mapEvent(c *xfsCall, name string) (string, int) {
	c.mu.Lock()
	evs := append([]map[string]any{}, c.events...)
	c.mu.Unlock()
	for _, e := range evs {
		if e["name"] == name {
			h := 0
			if l, ok := e["l"].(layer.Layer); ok && l != nil {
				h = w.learn(l)
			}
			mp := w.mpOf[e["key"].(string)]
			if mp == "" {
				mp = "?" + e["key"].(string)
			}
			return mp, h
		}
	}
	return "", -1
}

type xfsStep map[string]any

func (s xfsStep) str(k string) string { v, _ := s[k].(string); return v }
func (s xfsStep) num(k string) int    { v, _ := s[k].(float64); return int(v) }
func (s xfsStep) boo(k string) bool   { v, _ := s[k].(bool); return v }

const xfsStepTimeout = 4 * time.Second

// exec executes one spec step on the implementation and returns the recorded events (what the implementation did)
func (w *xfsWorld) exec(s xfsStep) ([]map[string]any, error) {
	act := s.str("act")
	ev := map[string]any{"ev": act}
	var pre []map[string]any
	var c *xfsCall
	if _, ok := s["c"]; ok {
		ev["c"] = s.num("c")
		c = w.calls[s.num("c")]
		if c == nil && act != "Call" {
			return nil, fmt.Errorf("step %v: unknown call", s)
		}
	}
	next := func(d time.Duration) *xfsStop { return w.await(c.key(), d) }
	must := func(st *xfsStop, ats ...string) error {
		if st == nil {
			return fmt.Errorf("step %v: call did not arrive at %v", s, ats)
		}
		for _, a := range ats {
			if st.at == a {
				return nil
			}
		}
		return fmt.Errorf("step %v: call arrived at %q, expected %v", s, st.at, ats)
	}
	cur := func() string {
		w.mu.Lock()
		defer w.mu.Unlock()
		if st := w.stops[c.key()]; st != nil {
			return st.at
		}
		return ""
	}
	switch act {
	case "Call":
		c = &xfsCall{id: s.num("c"), op: s.str("op"), mp: s.str("mp"), b: s.str("b"), lab: s.str("lab")}
		w.mu.Lock()
		w.calls[c.id] = c
		w.mu.Unlock()
		ev["op"], ev["mp"], ev["b"], ev["lab"] = c.op, c.mp, c.b, c.lab
	case "Do":
		if c.op == "Mount" {
			w.start(c)
			if err := must(next(xfsStepTimeout), "sources"); err != nil {
				return nil, err
			}
			ev["dos"], _, _ = c.counts()
		} else {
			return nil, nil // Check: Do and the lookup are adjacent in the code; executed (and recorded) with the Lookup step
		}
	case "Sources":
		w.release(c.key())
		st := next(xfsStepTimeout)
		if err := must(st, "resolve", "done"); err != nil {
			return nil, err
		}
		_, _, serr := c.counts()
		ev["ok"] = serr == nil
	case "Resolve":
		st := next(xfsStepTimeout)
		if err := must(st, "resolve"); err != nil {
			return nil, err
		}
		nm := st.info["name"].(string)
		w.mu.Lock()
		hit0 := w.lhit[nm]
		w.mu.Unlock()
		w.reg.set(w.reg.down, c.b, !s.boo("ok"))
		w.release(c.key())
		st = next(xfsStepTimeout)
		if err := must(st, "resolve", "resolved", "done"); err != nil {
			return nil, err
		}
		w.reg.set(w.reg.down, c.b, false)
		ev["ok"] = st.at == "resolved"
		w.mu.Lock()
		ev["hit"] = w.lhit[nm] > hit0
		w.mu.Unlock()
		ev["src"] = s.num("src")
		if st.at == "resolved" {
			ev["h"] = w.learn(st.info["l"].(layer.Layer))
		}
	case "Verify":
		if err := must(next(xfsStepTimeout), "resolved"); err != nil {
			return nil, err
		}
		w.release(c.key())
		st := next(xfsStepTimeout)
		if err := must(st, "verified", "done"); err != nil {
			return nil, err
		}
		ev["pass"] = st.at == "verified"
	case "Insert":
		if err := must(next(xfsStepTimeout), "verified"); err != nil {
			return nil, err
		}
		w.release(c.key())
		if err := must(next(xfsStepTimeout), "fuse", "done"); err != nil {
			return nil, err
		}
		ev["key"], ev["h"] = w.mapEvent(c, "fs.map.insert")
	case "Fuse":
		if err := must(next(xfsStepTimeout), "fuse"); err != nil {
			return nil, err
		}
		before := xfsMounts()[w.dir(c.mp)]
		if !s.boo("ok") {
			os.Remove(w.dir(c.mp)) // fault: the mountpoint directory is gone
		}
		w.release(c.key())
		if err := must(next(xfsStepTimeout), "done"); err != nil {
			return nil, err
		}
		os.MkdirAll(w.dir(c.mp), 0700)
		ev["ok"] = xfsMounts()[w.dir(c.mp)] > before
	case "Release":
		ev["h"] = s.num("h") // the deferred l.Done() ran with the failing step; its effect is in the projection
	case "Return":
		if cur() == "done" {
			w.release(c.key())
		}
		if err := must(next(xfsStepTimeout), "returned"); err != nil {
			return nil, err
		}
		ev["err"] = xfsErrClass(c.op, c.err)
		ev["dos"], ev["dones"], _ = c.counts()
		if c.err != nil {
			ev["msg"] = c.err.Error()
		}
	case "Lookup":
		w.start(c)
		c.waitFrom = time.Now()
		for end := time.Now().Add(xfsStepTimeout); time.Now().Before(end); time.Sleep(200 * time.Microsecond) {
			if k, _ := w.mapEvent(c, "fs.map.lookup"); k != "" { // the lookup under layerMu has happened
				break
			}
		}
		st := next(150 * time.Millisecond) // nil: the call is waiting for the prefetch
		if st != nil && st.at != "layercheck" && st.at != "csources" && st.at != "done" && st.at != "returned" {
			return nil, fmt.Errorf("step %v: Check arrived at %q", s, st.at)
		}
		d0, _, _ := c.counts()
		if d0 > 0 { // (a Check that never called DoPrioritizedTask has no Do event; the Return event carries the counts)
			pre = append(pre, map[string]any{"ev": "Do", "c": c.id, "dos": d0})
		}
		ev["key"], ev["h"] = w.mapEvent(c, "fs.map.lookup")
	case "LayerCheck":
		switch cur() {
		case "layercheck":
			w.reg.set(w.reg.checkFail, w.blobOfCall(c), s.str("res") == "fail")
			c.waitFrom = time.Now()
			w.release(c.key())
			if s.str("res") == "fail" {
				if err := must(next(xfsStepTimeout), "csources"); err != nil {
					return nil, err
				}
			}
			w.reg.set(w.reg.checkFail, w.blobOfCall(c), false)
			ev["res"] = s.str("res")
		case "csources":
			ev["res"] = "fail" // layer.Check failed before reaching the registry (closed layer)
		default:
			ev["res"] = "full"
		}
	case "Refresh":
		if err := must(next(xfsStepTimeout), "csources"); err != nil {
			return nil, err
		}
		b := w.blobOfCall(c)
		w.reg.set(w.reg.down, b, !s.boo("ok"))
		c.waitFrom = time.Now()
		w.release(c.key())
		if !s.boo("ok") {
			if err := must(next(xfsStepTimeout), "done"); err != nil {
				return nil, err
			}
		} else {
			next(100 * time.Millisecond)
		}
		w.reg.set(w.reg.down, b, false)
		ev["ok"] = !(cur() == "done" && !s.boo("ok"))
	case "Wait":
		if err := must(next(xfsStepTimeout), "done"); err != nil {
			return nil, err
		}
		waited := time.Since(c.waitFrom)
		how := "done"
		switch {
		case w.cfg.NoPrefetch:
			how = "skip"
		case waited >= 900*time.Millisecond:
			how = "timeout"
		case s.str("how") == "closed":
			how = "closed" // indistinguishable from "done" by timing; the projection (closed flag) decides in FsTrace
		}
		ev["how"] = how
	case "Delete":
		w.start(c)
		if err := must(next(xfsStepTimeout), "deleted", "returned"); err != nil {
			return nil, err
		}
		_, h := w.mapEvent(c, "fs.map.delete")
		if h < 0 {
			h = 0
		}
		ev["h"] = h
	case "Sys":
		if err := must(next(xfsStepTimeout), "deleted"); err != nil {
			return nil, err
		}
		w.release(c.key())
		if err := must(next(xfsStepTimeout), "returned"); err != nil {
			return nil, err
		}
		ev["ok"] = c.err == nil
	case "PfStart", "PfEnd":
		o := s.num("o")
		ev["o"] = o
		w.mu.Lock()
		if o < 1 || o > len(w.optr) {
			w.mu.Unlock()
			return nil, fmt.Errorf("step %v: unknown object", s)
		}
		key := "pf" + strconv.FormatUint(uint64(w.optr[o-1]), 16)
		wp := xfsPeek(reflect.ValueOf(w.oany[o-1]), "prefetchWaiter").Pointer()
		w.mu.Unlock()
		want := map[string]string{"PfStart": "start", "PfEnd": "fetch"}[act]
		st := w.await(key, xfsStepTimeout)
		if st == nil || st.at != want {
			return nil, fmt.Errorf("step %v: prefetch goroutine not at %s", s, want)
		}
		w.release(key)
		deadline := time.Now().Add(xfsStepTimeout)
		for {
			w.mu.Lock()
			done := w.wdone[wp]
			arrived := w.stops[key] != nil
			w.mu.Unlock()
			if act == "PfStart" {
				// goes on to the fetch gate, or (closed layer) ends at once; the waiter may already be released by a Check time-out
				lv := reflect.ValueOf(w.oany[o-1])
				cm := xfsLock(lv, "closedMu")
				cm.Lock()
				cl := xfsPeek(lv, "closed").Bool()
				cm.Unlock()
				if arrived || (cl && done) {
					ev["closed"] = !arrived
					break
				}
			} else if done {
				break
			}
			if time.Now().After(deadline) {
				return nil, fmt.Errorf("step %v: prefetch did not progress", s)
			}
			time.Sleep(200 * time.Microsecond)
		}
	default:
		return nil, fmt.Errorf("step %v: not executable by the replay driver", s)
	}
	if c != nil {
		ev["op"], ev["mp"] = c.op, c.mp
	}
	ev["obs"] = w.obs()
	if (act == "Fuse" && ev["ok"] == false) || (act == "Verify" && ev["pass"] == false) {
		// the implementation ran the failing step and the deferred release in one go: the projection belongs to the Release step
		delete(ev, "obs")
	}
	for _, p := range pre {
		p["op"], p["mp"] = c.op, c.mp
		p["obs"] = ev["obs"]
	}
	return append(pre, ev), nil
}

func (w *xfsWorld) blobOfCall(c *xfsCall) string {
	_, h := w.mapEvent(c, "fs.map.lookup")
	w.mu.Lock()
	defer w.mu.Unlock()
	if h > 0 && h <= len(w.hobj) {
		return w.oblob[w.hobj[h-1]-1]
	}
	return w.blobs[0]
}

// close: let everything run to its end, unmount what is left
func (w *xfsWorld) close() {
	w.setFree()
	deadline := time.Now().Add(10 * time.Second)
	for time.Now().Before(deadline) {
		w.mu.Lock()
		busy := false
		for _, c := range w.calls {
			if c.started && !c.returned {
				busy = true
			}
		}
		w.mu.Unlock()
		if !busy {
			break
		}
		time.Sleep(time.Millisecond)
	}
	for _, mp := range w.mps {
		w.fsys.Unmount(context.Background(), w.dir(mp))
		for i := 0; i < 4 && xfsMounts()[w.dir(mp)] > 0; i++ {
			unix.Unmount(w.dir(mp), unix.MNT_DETACH)
		}
	}
	xfsByPtr.Delete(xfsPtr(w.fs))
	xfsByPtr.Delete(xfsPtr(w.fs.backgroundTaskManager))
	xfsByPtr.Delete(xfsPtr(w.fs.resolver))
	os.RemoveAll(w.root)
}

// ------------------------------------------------------------------------------------------------ replay

type xfsJob struct {
	Label string      `json:"label"`
	Cfg   xfsCfg      `json:"cfg"`
	MPs   []string    `json:"mps"`
	Blobs []string    `json:"blobs"`
	Out   string      `json:"out"`
	Walks [][]xfsStep `json:"walks"`
}

func xfsScratch(t testing.TB) string {
	base := os.Getenv("VERIF_SCRATCH")
	if base == "" {
		base = os.TempDir()
	}
	d, err := os.MkdirTemp(base, "xfs")
	if err != nil {
		t.Fatal(err)
	}
	return d
}

func xfsReplayWalk(base string, j xfsJob, walk []xfsStep) (evs []map[string]any, problem string) {
	w, err := xfsNewWorld(base, j.Cfg, j.MPs, j.Blobs, 0)
	if err != nil {
		return nil, "world: " + err.Error()
	}
	defer w.close()
	evs = append(evs, map[string]any{"ev": "Reset", "obs": w.obs()})
	for i, s := range walk {
		es, err := w.exec(s)
		if err != nil {
			return evs, fmt.Sprintf("step %d: %v", i, err)
		}
		evs = append(evs, es...)
	}
	return evs, ""
}

func TestVerifFsReplay(t *testing.T) {
	in := os.Getenv("VERIF_IN")
	if in == "" {
		t.Skip("VERIF_IN not set")
	}
	raw, err := os.ReadFile(in)
	if err != nil {
		t.Fatal(err)
	}
	var jobs []xfsJob
	if err := json.Unmarshal(raw, &jobs); err != nil {
		t.Fatal(err)
	}
	if _, err := os.Stat("/dev/fuse"); err != nil {
		t.Fatalf("XFS-NOFUSE: %v", err)
	}
	xfsInstallHooks()
	defer xfsRemoveHooks()
	base := xfsScratch(t)
	defer os.RemoveAll(base)
	par := 8
	if v, err := strconv.Atoi(os.Getenv("VERIF_PAR")); err == nil && v > 0 {
		par = v
	}
	for _, j := range jobs {
		res := make([][]map[string]any, len(j.Walks))
		probs := make([]string, len(j.Walks))
		sem := make(chan struct{}, par)
		var wg sync.WaitGroup
		for i := range j.Walks {
			wg.Add(1)
			sem <- struct{}{}
			go func(i int) {
				defer wg.Done()
				defer func() { <-sem }()
				res[i], probs[i] = xfsReplayWalk(base, j, j.Walks[i])
			}(i)
		}
		wg.Wait()
		f, err := os.Create(j.Out)
		if err != nil {
			t.Fatal(err)
		}
		enc := json.NewEncoder(f)
		for i := range res {
			for _, e := range res[i] {
				enc.Encode(e)
			}
			if probs[i] != "" {
				enc.Encode(map[string]any{"ev": "Problem", "walk": i, "text": probs[i]})
				t.Logf("XFS-PROBLEM job %s walk %d: %s", j.Label, i, probs[i])
			}
		}
		f.Close()
		t.Logf("job %s: %d walks replayed", j.Label, len(j.Walks))
	}
}

// ------------------------------------------------------------------------------------------------ free-running

func xfsReadSome(dir string, b *xfsBlob, name string) string {
	data, err := os.ReadFile(filepath.Join(dir, "d", name))
	if err != nil {
		return "err:" + err.Error()
	}
	if string(data) == b.files[name] {
		return "ok"
	}
	return "mismatch"
}

func TestVerifFsFree(t *testing.T) {
	out := os.Getenv("VERIF_FREE_OUT")
	if out == "" {
		t.Skip("VERIF_FREE_OUT not set")
	}
	n, _ := strconv.Atoi(os.Getenv("VERIF_FREE_TRACES"))
	if n == 0 {
		n = 6
	}
	seed, _ := strconv.ParseInt(os.Getenv("VERIF_SEED"), 10, 64)
	xfsInstallHooks()
	defer xfsRemoveHooks()
	base := xfsScratch(t)
	defer os.RemoveAll(base)
	f, err := os.Create(out)
	if err != nil {
		t.Fatal(err)
	}
	defer f.Close()
	enc := json.NewEncoder(f)
	var encMu sync.Mutex
	var wg sync.WaitGroup
	sem := make(chan struct{}, 4)
	for tr := 0; tr < n; tr++ {
		wg.Add(1)
		sem <- struct{}{}
		go func(tr int) {
			defer wg.Done()
			defer func() { <-sem }()
			evs := xfsFreeRun(base, seed*1000+int64(tr))
			encMu.Lock()
			for _, e := range evs {
				enc.Encode(e)
			}
			encMu.Unlock()
		}(tr)
	}
	wg.Wait()
}

// xfsFreeRun: two workers, each with its own mountpoint (the snapshotter's contract), random Mount / read / Check / Unmount
// of shared blobs with prefetch, background fetch and neighbour pre-resolution on; a third mountpoint is only ever checked
// and unmounted (unknown mountpoint).  Events are logged in the order of the hook calls; the final state is projected.
func xfsFreeRun(base string, seed int64) []map[string]any {
	cfg := xfsCfg{AllowNoVerif: seed%2 == 0, PreRes: true}
	mps := []string{"m1", "m2", "m3"}
	w, err := xfsNewWorld(base, cfg, mps, []string{"b1", "b2"}, 5*time.Millisecond)
	if err != nil {
		return []map[string]any{{"ev": "Problem", "text": err.Error()}}
	}
	defer w.close()
	w.mu.Lock()
	w.free = true
	w.mu.Unlock()
	w.logEv(map[string]any{"ev": "Reset", "free": true, "cfg": cfg})
	var idMu sync.Mutex
	nid := 0
	var wg sync.WaitGroup
	for wk := 0; wk < 2; wk++ {
		wg.Add(1)
		go func(wk int) {
			defer wg.Done()
			rng := rand.New(rand.NewSource(seed*7 + int64(wk)))
			mp := mps[wk]
			mounted := ""
			for i := 0; i < 10; i++ {
				op := []string{"Mount", "Check", "Unmount", "Check"}[rng.Intn(4)]
				tmp := mp
				if rng.Intn(6) == 0 && op != "Mount" {
					tmp = "m3"
				}
				idMu.Lock()
				nid++
				c := &xfsCall{id: nid, op: op, mp: tmp, started: true}
				idMu.Unlock()
				if op == "Mount" {
					if mounted != "" {
						continue
					}
					c.b = []string{"b1", "b2"}[rng.Intn(2)]
					c.lab = []string{"ok", "ok", "skip", "bad", "none", "mirror", "malformed"}[rng.Intn(7)]
				}
				c.goid = verifhook.Goid()
				xfsByGoid.Store(c.goid, c)
				w.logEv(map[string]any{"ev": "CallBegin", "c": c.id, "op": op, "mp": tmp, "b": c.b, "lab": c.lab})
				var err error
				switch op {
				case "Mount":
					down := rng.Intn(5) == 0
					if down {
						w.reg.set(w.reg.down, c.b, true)
					}
					err = w.fsys.Mount(context.Background(), w.dir(tmp), w.labelsFor(c))
					if down {
						w.reg.set(w.reg.down, c.b, false)
					}
					if err == nil {
						mounted = c.b
					}
				case "Check":
					err = w.fsys.Check(context.Background(), w.dir(tmp), xfsLabels("b1", []string{"b1"}))
				case "Unmount":
					err = w.fsys.Unmount(context.Background(), w.dir(tmp))
					if tmp == mp {
						mounted = ""
					}
				}
				xfsByGoid.Delete(c.goid)
				fd, fn, _ := c.counts()
				e := map[string]any{"ev": "CallEnd", "c": c.id, "op": op, "mp": tmp, "err": xfsErrClass(op, err), "dos": fd, "dones": fn}
				if op == "Mount" && err == nil {
					e["read"] = xfsReadSome(w.dir(tmp), xfsGetBlob(c.b), "f2") // lazy read through the kernel
				}
				w.logEv(e)
				if rng.Intn(3) == 0 {
					time.Sleep(time.Duration(rng.Intn(12)) * time.Millisecond) // lets background bodies start
				}
			}
		}(wk)
	}
	wg.Wait()
	time.Sleep(30 * time.Millisecond)
	w.logEv(map[string]any{"ev": "Quiet", "obs": w.obs()})
	w.mu.Lock()
	defer w.mu.Unlock()
	return append([]map[string]any{}, w.log...)
}

// ------------------------------------------------------------------------------------------------ end to end

type xfsE2EJob struct {
	Out   string      `json:"out"`
	Walks [][]xfsStep `json:"walks"`
}

// TestVerifFsE2E: call-level walks of Snapshotter.tla through the real snapshotter with the real filesystem as backend.
// Names c1.. are committed snapshots = layers (c1 -> blob b1, ...); a Prepare with target label mounts the layer lazily.
func TestVerifFsE2E(t *testing.T) {
	in := os.Getenv("VERIF_E2E_IN")
	if in == "" {
		t.Skip("VERIF_E2E_IN not set")
	}
	raw, err := os.ReadFile(in)
	if err != nil {
		t.Fatal(err)
	}
	var job xfsE2EJob
	if err := json.Unmarshal(raw, &job); err != nil {
		t.Fatal(err)
	}
	xfsInstallHooks()
	defer xfsRemoveHooks()
	base := xfsScratch(t)
	defer os.RemoveAll(base)
	res := make([][]map[string]any, len(job.Walks))
	var wg sync.WaitGroup
	sem := make(chan struct{}, 6)
	for i := range job.Walks {
		wg.Add(1)
		sem <- struct{}{}
		go func(i int) {
			defer wg.Done()
			defer func() { <-sem }()
			res[i] = xfsE2EWalk(base, job.Walks[i])
		}(i)
	}
	wg.Wait()
	f, err := os.Create(job.Out)
	if err != nil {
		t.Fatal(err)
	}
	defer f.Close()
	enc := json.NewEncoder(f)
	for _, r := range res {
		for _, e := range r {
			enc.Encode(e)
		}
	}
}

func xfsE2EWalk(base string, walk []xfsStep) (evs []map[string]any) {
	w, err := xfsNewWorld(base, xfsCfg{NoBgFetch: false, PreRes: false}, nil, []string{"b1", "b2", "b3"}, 5*time.Millisecond)
	if err != nil {
		return []map[string]any{{"ev": "Problem", "text": err.Error()}}
	}
	w.mu.Lock()
	w.free = true
	w.mu.Unlock()
	ctx := context.Background()
	snroot := filepath.Join(w.root, "sn")
	sn, err := snapshot.NewSnapshotter(ctx, snroot, w.fsys)
	if err != nil {
		w.close()
		return []map[string]any{{"ev": "Problem", "text": err.Error()}}
	}
	closed := false
	defer func() {
		if !closed {
			sn.Close()
		}
		// whatever is still mounted under the snapshotter root
		for d, n := range xfsMounts() {
			if strings.HasPrefix(d, w.root) {
				for i := 0; i < n; i++ {
					unix.Unmount(d, unix.MNT_DETACH)
				}
			}
		}
		w.close()
	}()
	blobOf := map[string]string{"c1": "b1", "c2": "b2", "c3": "b3"}
	extra := map[string]bool{} // active snapshots left behind, mounted, by a remote Prepare whose target already existed
	// projection: committed remote snapshots (metadata) -> their fs directories; the filesystem's layer map; kernel mounts
	project := func() map[string]any {
		remote := []string{}
		sn.Walk(ctx, func(ctx context.Context, info snapshots.Info) error {
			if _, ok := info.Labels["containerd.io/snapshot/remote"]; ok && info.Kind == snapshots.KindCommitted {
				remote = append(remote, info.Name)
			}
			return nil
		})
		sort.Strings(remote)
		w.fs.layerMu.Lock()
		keys := []string{}
		for k := range w.fs.layer {
			keys = append(keys, k)
		}
		w.fs.layerMu.Unlock()
		sort.Strings(keys)
		ms := xfsMounts()
		mounted, stray := 0, 0
		for d, n := range ms {
			if strings.HasPrefix(d, snroot) {
				in := false
				for _, k := range keys {
					if k == d {
						in = true
					}
				}
				if in && n == 1 {
					mounted++
				} else {
					stray += n
				}
			}
		}
		return map[string]any{"remote": remote, "nmap": len(keys), "mounted": mounted, "stray": stray}
	}
	evs = append(evs, map[string]any{"ev": "Reset", "e2e": true})
	var pend xfsStep
	for i := 0; i < len(walk); i++ {
		s := walk[i]
		if s.str("act") != "Call" {
			continue
		}
		pend = s
		// environment choices the walk made for this call: backend mount result, layers whose Check fails
		mountOK := true
		bad := map[string]bool{}
		for k := i + 1; k < len(walk) && walk[k].str("act") != "Call"; k++ {
			if walk[k].str("act") == "FsMount" {
				mountOK = walk[k].boo("ok")
			}
		}
		op, k, p, tgt := pend.str("op"), pend.str("k"), pend.str("p"), pend.str("tgt")
		e := map[string]any{"ev": "SnCall", "op": op, "k": k, "p": p, "tgt": tgt}
		var cerr error
		switch op {
		case "Prepare":
			var opts []snapshots.Opt
			if tgt != "" {
				b := blobOf[tgt]
				labels := xfsLabels(b, []string{b})
				labels["containerd.io/snapshot.ref"] = tgt
				w.reg.set(w.reg.down, b, !mountOK)
				opts = append(opts, snapshots.WithLabels(labels))
				e["mountok"] = mountOK
			}
			var ms []mount.Mount
			ms, cerr = sn.Prepare(ctx, k, p, opts...)
			if tgt != "" {
				w.reg.set(w.reg.down, blobOf[tgt], false)
			}
			if cerr == nil {
				e["mounts"] = len(ms)
			} else if tgt != "" && mountOK && strings.Contains(cerr.Error(), "already exists") {
				if _, serr := sn.Stat(ctx, k); serr == nil {
					extra[k] = true
				}
			}
		case "View":
			_, cerr = sn.View(ctx, k, p)
		case "Commit":
			cerr = sn.Commit(ctx, tgt, k)
		case "Remove":
			cerr = sn.Remove(ctx, k)
			if cerr == nil {
				delete(extra, k)
			}
		case "Mounts":
			_, cerr = sn.Mounts(ctx, k)
		case "Update":
			_, cerr = sn.Update(ctx, snapshots.Info{Name: k, Labels: map[string]string{"containerd.io/gc.root": "x"}}, "labels.containerd.io/gc.root")
		case "Cleanup":
			if cl, ok := sn.(interface{ Cleanup(context.Context) error }); ok {
				cerr = cl.Cleanup(ctx)
			}
		case "Close":
			cerr = sn.Close()
			closed = true
		}
		_ = bad
		e["err"] = "nil"
		if cerr != nil {
			e["err"] = "err"
			e["msg"] = cerr.Error()
		}
		// lazy reads through the kernel mount of every committed remote snapshot
		reads := []string{}
		if !closed {
			w.fs.layerMu.Lock()
			dirs := []string{}
			for d := range w.fs.layer {
				dirs = append(dirs, d)
			}
			w.fs.layerMu.Unlock()
			sort.Strings(dirs)
			for _, d := range dirs {
				w.fs.layerMu.Lock()
				l := w.fs.layer[d]
				w.fs.layerMu.Unlock()
				if l == nil {
					continue
				}
				for _, b := range w.reg.byDigest {
					if b.desc.Digest == l.Info().Digest {
						reads = append(reads, xfsReadSome(d, b, "f1"))
					}
				}
			}
			e["quiet"] = op == "Cleanup" || op == "Remove" || op == "Prepare" || op == "Commit"
		} else {
			e["quiet"] = true
		}
		e["reads"] = reads
		e["closed"] = closed
		e["st"] = project()
		e["extra"] = len(extra)
		evs = append(evs, e)
		if closed {
			break
		}
	}
	return evs
}

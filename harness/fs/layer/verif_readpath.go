//go:build verif

// Driver for property C02 (spec/ReadPath.tla, spec/TarMeta.tla). Non-test file so that the db metadata store of
// the cmd module can run it too (as layer.TestSuiteLayer is used by cmd/containerd-stargz-grpc/db/reader_test.go).
// The driver decides nothing: it builds layers from the model's file table with the real estargz.Build, serves them
// through the real metadata store / reader.Reader / node layer, executes the steps it is given and records what the
// implementation returned (bytes as numbers: byte i of model file f is (16*f+i)%251+1, so results project to positions).
package layer

import (
	"archive/tar"
	"bytes"
	"compress/gzip"
	"context"
	"crypto/sha256"
	"encoding/json"
	"fmt"
	"io"
	"math/rand"
	"os"
	"path"
	"sort"
	"strings"
	"sync"
	"sync/atomic"
	"syscall"
	"time"

	"github.com/containerd/stargz-snapshotter/cache"
	"github.com/containerd/stargz-snapshotter/estargz"
	"github.com/containerd/stargz-snapshotter/fs/reader"
	"github.com/containerd/stargz-snapshotter/metadata"
	tutil "github.com/containerd/stargz-snapshotter/util/testutil"
	fusefs "github.com/hanwen/go-fuse/v2/fs"
	"github.com/hanwen/go-fuse/v2/fuse"
	"github.com/klauspost/compress/zstd"
	digest "github.com/opencontainers/go-digest"
	"golang.org/x/sys/unix"
)

const c02LM = 9 // model file number of the landmark

type c02Entry struct {
	Path      []string    `json:"path"`
	Style     string      `json:"style"`
	Type      string      `json:"type"`
	File      int         `json:"file"`
	Size      int         `json:"size"`
	Mode      int64       `json:"mode"`
	UID       int         `json:"uid"`
	GID       int         `json:"gid"`
	Target    string      `json:"target"`
	Link      []string    `json:"link"`
	LinkStyle string      `json:"linkstyle"`
	Major     int64       `json:"major"`
	Minor     int64       `json:"minor"`
	Xattrs    [][2]string `json:"xattrs"`
	Mtime     int64       `json:"mtime"`
}

type c02Layer struct {
	Name     string     `json:"name"`
	Entries  []c02Entry `json:"entries"`
	Chunk    int        `json:"chunk"`
	MinChunk int        `json:"minchunk"`
	Comp     string     `json:"comp"`
	Prio     []string   `json:"prio"`
	Cache    string     `json:"cache"`
	Via      string     `json:"via"`
	Workers  int        `json:"workers"` // estargz.WithParallelism; 0 = 1
}

type c02Job struct {
	Layer c02Layer           `json:"layer"`
	Kind  string             `json:"kind"` // read | meta | free
	Walks [][]map[string]any `json:"walks"`
	Out   string             `json:"out"`
	// free mode
	Traces  int `json:"traces"`
	Readers int `json:"readers"`
	Reads   int `json:"reads"`
}

type c02Input struct {
	Jobs    []c02Job `json:"jobs"`
	DumpOut string   `json:"dump_out"`
}

type c02Layout struct {
	Sizes    [][2]int `json:"sizes"`
	Chunks   [][5]int `json:"chunks"`
	Prefetch bool     `json:"prefetch"`
}

type c02Built struct {
	l       c02Layer
	sr      *io.SectionReader
	tocDgst digest.Digest
	cl      tutil.Compression
	layout  c02Layout
	paths   map[int][]string // model file -> path components
	maxSize int
}

func c02Render(p []string, style string, dir bool) string {
	s := strings.Join(p, "/")
	switch style {
	case "dot":
		s = "./" + s
	case "slash":
		s = "/" + s
	case "dotdot":
		s = "zz/../" + s
	}
	if dir {
		s += "/"
	}
	return s
}

func c02Content(f, size int) []byte {
	b := make([]byte, size)
	for i := range b {
		b[i] = byte((16*f+i)%251 + 1)
	}
	return b
}

func c02BuildTar(ents []c02Entry) ([]byte, error) {
	buf := new(bytes.Buffer)
	tw := tar.NewWriter(buf)
	for _, e := range ents {
		h := &tar.Header{
			Name:    c02Render(e.Path, e.Style, e.Type == "dir"),
			Mode:    e.Mode,
			Uid:     e.UID,
			Gid:     e.GID,
			ModTime: time.Unix(e.Mtime, 0),
			Format:  tar.FormatPAX,
		}
		if len(e.Xattrs) > 0 {
			h.PAXRecords = map[string]string{}
			for _, kv := range e.Xattrs {
				h.PAXRecords["SCHILY.xattr."+kv[0]] = kv[1]
			}
		}
		var content []byte
		switch e.Type {
		case "reg":
			h.Typeflag = tar.TypeReg
			content = c02Content(e.File, e.Size)
			h.Size = int64(len(content))
		case "dir":
			h.Typeflag = tar.TypeDir
		case "symlink":
			h.Typeflag = tar.TypeSymlink
			h.Linkname = e.Target
		case "hardlink":
			h.Typeflag = tar.TypeLink
			h.Linkname = c02Render(e.Link, e.LinkStyle, false)
		case "char":
			h.Typeflag = tar.TypeChar
			h.Devmajor, h.Devminor = e.Major, e.Minor
		case "block":
			h.Typeflag = tar.TypeBlock
			h.Devmajor, h.Devminor = e.Major, e.Minor
		case "fifo":
			h.Typeflag = tar.TypeFifo
		default:
			return nil, fmt.Errorf("unknown entry type %q", e.Type)
		}
		if err := tw.WriteHeader(h); err != nil {
			return nil, err
		}
		if len(content) > 0 {
			if _, err := tw.Write(content); err != nil {
				return nil, err
			}
		}
	}
	if err := tw.Close(); err != nil {
		return nil, err
	}
	return buf.Bytes(), nil
}

func c02Build(l c02Layer) (*c02Built, error) {
	tarData, err := c02BuildTar(l.Entries)
	if err != nil {
		return nil, err
	}
	var cl tutil.Compression
	switch l.Comp {
	case "zstd":
		cl = tutil.ZstdCompressionWithLevel(zstd.SpeedFastest)()
	case "exttoc": // gzip blob whose TOC lives outside the blob (estargz/externaltoc)
		cl = tutil.ExternalTOCGzipCompressionWithLevel(gzip.BestSpeed)()
	default:
		cl = tutil.GzipCompressionWithLevel(gzip.BestSpeed)()
	}
	workers := l.Workers
	if workers <= 0 {
		workers = 1
	}
	opts := []estargz.Option{estargz.WithCompression(cl), estargz.WithParallelism(workers)}
	if l.Chunk > 0 {
		opts = append(opts, estargz.WithChunkSize(l.Chunk))
	}
	if l.MinChunk > 0 {
		opts = append(opts, estargz.WithMinChunkSize(l.MinChunk))
	}
	if len(l.Prio) > 0 {
		opts = append(opts, estargz.WithPrioritizedFiles(l.Prio))
	}
	rc, err := estargz.Build(io.NewSectionReader(bytes.NewReader(tarData), 0, int64(len(tarData))), opts...)
	if err != nil {
		return nil, fmt.Errorf("estargz.Build: %w", err)
	}
	defer rc.Close()
	blob := new(bytes.Buffer)
	if _, err := io.Copy(blob, rc); err != nil {
		return nil, err
	}
	bb := blob.Bytes()
	b := &c02Built{l: l, sr: io.NewSectionReader(bytes.NewReader(bb), 0, int64(len(bb))), tocDgst: rc.TOCDigest(), cl: cl,
		paths: map[int][]string{}}
	// layout as the REAL table of contents describes it: the TOC JSON is parsed here independently of the reader
	// code under test (footer -> TOC offset -> JTOC entries), not through estargz.Open / ChunkEntryForOffset
	fsz := cl.FooterSize()
	footer := make([]byte, fsz)
	if _, err := b.sr.ReadAt(footer, b.sr.Size()-fsz); err != nil {
		return nil, fmt.Errorf("footer: %w", err)
	}
	_, tocOff, tocSize, err := cl.ParseFooter(footer)
	if err != nil {
		return nil, fmt.Errorf("ParseFooter: %w", err)
	}
	if tocOff >= 0 && tocSize <= 0 {
		tocSize = b.sr.Size() - tocOff - fsz
	}
	var jtoc *estargz.JTOC
	if tocOff < 0 {
		jtoc, _, err = cl.ParseTOC(nil) // external TOC: provided by the compressor that wrote it
	} else {
		jtoc, _, err = cl.ParseTOC(io.NewSectionReader(b.sr, tocOff, tocSize))
	}
	if err != nil {
		return nil, fmt.Errorf("ParseTOC: %w", err)
	}
	type rawChunk struct {
		f, off, size  int
		offset, inner int64
	}
	var raw []rawChunk
	final := map[string]c02Entry{} // last regular entry of a name wins
	for _, e := range l.Entries {
		name := strings.Join(e.Path, "/")
		if e.Type == "reg" {
			final[name] = e
		} else {
			delete(final, name)
		}
	}
	tocChunks := map[string][]rawChunk{} // clean name -> chunks in TOC order
	var lastName string
	var lastSize int64
	for _, te := range jtoc.Entries {
		switch te.Type {
		case "reg":
			lastName, lastSize = strings.TrimPrefix(path.Clean("/"+te.Name), "/"), te.Size
			tocChunks[lastName] = nil // a later entry of the same name replaces the earlier one
			if te.Size == 0 {
				continue
			}
		case "chunk":
		default:
			continue
		}
		size := te.ChunkSize
		if size == 0 {
			size = lastSize - te.ChunkOffset
		}
		tocChunks[lastName] = append(tocChunks[lastName], rawChunk{0, int(te.ChunkOffset), int(size), te.Offset, te.InnerOffset})
	}
	hasEntry := func(name string) bool { _, ok := tocChunks[name]; return ok }
	addFile := func(f int, name string, size int) error {
		b.layout.Sizes = append(b.layout.Sizes, [2]int{f, size})
		if size > b.maxSize {
			b.maxSize = size
		}
		for _, c := range tocChunks[name] {
			c.f = f
			raw = append(raw, c)
		}
		return nil
	}
	for _, lm := range []string{estargz.PrefetchLandmark, estargz.NoPrefetchLandmark} {
		if hasEntry(lm) {
			b.layout.Prefetch = lm == estargz.PrefetchLandmark
			b.paths[c02LM] = []string{lm}
			if err := addFile(c02LM, lm, 1); err != nil {
				return nil, err
			}
		}
	}
	names := make([]string, 0, len(final))
	for n := range final {
		names = append(names, n)
	}
	sort.Strings(names)
	for _, n := range names {
		e := final[n]
		b.paths[e.File] = e.Path
		if err := addFile(e.File, n, e.Size); err != nil {
			return nil, err
		}
	}
	sort.Slice(b.layout.Sizes, func(i, j int) bool { return b.layout.Sizes[i][0] < b.layout.Sizes[j][0] })
	sort.Slice(raw, func(i, j int) bool {
		if raw[i].offset != raw[j].offset {
			return raw[i].offset < raw[j].offset
		}
		return raw[i].inner < raw[j].inner
	})
	// streams numbered by blob offset; inner offsets made abstract (junk between two chunks = 1 byte)
	st, pos := 0, 0
	var lastOff, lastEnd int64 = -1, 0
	for _, c := range raw {
		if c.offset != lastOff {
			st++
			pos, lastEnd, lastOff = 0, 0, c.offset
		}
		if c.inner > lastEnd {
			pos++
		} else if c.inner < lastEnd {
			return nil, fmt.Errorf("overlapping chunks in stream at %d", c.offset)
		}
		b.layout.Chunks = append(b.layout.Chunks, [5]int{c.f, c.off, c.size, st, pos})
		pos += c.size
		lastEnd = c.inner + int64(c.size)
	}
	return b, nil
}

// ---------------------------------------------------------------------------------------------- cache wrapper
// c02Cache wraps a real cache.BlobCache: records which keys were committed and lets the driver drop entries
// (the Evict action of the model is an action of the environment).
type c02Cache struct {
	inner   cache.BlobCache
	mu      sync.Mutex
	present map[string]bool
}

type c02Writer struct {
	cache.Writer
	c   *c02Cache
	key string
}

func (w *c02Writer) Commit() error {
	err := w.Writer.Commit()
	if err == nil {
		w.c.mu.Lock()
		w.c.present[w.key] = true
		w.c.mu.Unlock()
	}
	return err
}

func (c *c02Cache) Add(key string, opts ...cache.Option) (cache.Writer, error) {
	w, err := c.inner.Add(key, opts...)
	if err != nil {
		return nil, err
	}
	return &c02Writer{w, c, key}, nil
}

func (c *c02Cache) Get(key string, opts ...cache.Option) (cache.Reader, error) {
	c.mu.Lock()
	ok := c.present[key]
	c.mu.Unlock()
	if !ok {
		return nil, fmt.Errorf("c02: missed cache %q", key)
	}
	return c.inner.Get(key, opts...)
}

func (c *c02Cache) Close() error { return c.inner.Close() }

func (c *c02Cache) evict(key string) {
	c.mu.Lock()
	delete(c.present, key)
	c.mu.Unlock()
}

func c02GenID(id uint32, offset, size int64) string {
	sum := sha256.Sum256(fmt.Appendf(nil, "%d-%d-%d", id, offset, size))
	return fmt.Sprintf("%x", sum)
}

// ---------------------------------------------------------------------------------------------- one served layer
type c02Inst struct {
	b       *c02Built
	mr      metadata.Reader
	vr      *reader.VerifiableReader
	rr      reader.Reader
	root    *node
	cc      *c02Cache
	ids     map[int]uint32
	keys    map[string][3]int
	inos    map[uint64]int
	nodes   map[string]*node // nodes already looked up, by path (as the kernel keeps inodes): memoised listings survive
	nmu     sync.Mutex
	maxID   uint32
	full    map[string][3]int // every (node id, off, size) key that could be produced for this layer; built on first miss
	cleanup []func()
}

func c02Serve(b *c02Built, store metadata.Store) (*c02Inst, error) {
	in := &c02Inst{b: b, ids: map[int]uint32{}, keys: map[string][3]int{}, inos: map[uint64]int{}, nodes: map[string]*node{}}
	mr, err := store(io.NewSectionReader(b.sr, 0, b.sr.Size()), metadata.WithDecompressors(b.cl))
	if err != nil {
		return nil, fmt.Errorf("metadata store: %w", err)
	}
	in.mr = mr
	var inner cache.BlobCache
	if b.l.Cache == "dir" {
		dir, err := os.MkdirTemp(os.Getenv("VERIF_SCRATCH"), "c02cache")
		if err != nil {
			return nil, err
		}
		in.cleanup = append(in.cleanup, func() { os.RemoveAll(dir) })
		inner, err = cache.NewDirectoryCache(dir, cache.DirectoryCacheConfig{MaxLRUCacheEntry: 1, MaxCacheFds: 1, SyncAdd: true})
		if err != nil {
			return nil, err
		}
	} else {
		inner = cache.NewMemoryCache()
	}
	in.cc = &c02Cache{inner: inner, present: map[string]bool{}}
	vr, err := reader.NewReader(mr, in.cc, digest.FromString(""))
	if err != nil {
		return nil, err
	}
	in.vr = vr
	rr, err := vr.VerifyTOC(b.tocDgst)
	if err != nil {
		return nil, fmt.Errorf("VerifyTOC: %w", err)
	}
	in.rr = rr
	root, err := newNode(testStateLayerDigest, rr, &testBlobState{10, 5}, 100, OverlayOpaqueAll, passThroughConfig{}, false)
	if err != nil {
		return nil, err
	}
	fusefs.NewNodeFS(root, &fusefs.Options{})
	in.root = root.(*node)
	// node ids of the model files; every (id, off, size) key that could be produced for this layer
	maxID := uint32(0)
	for f, p := range b.paths {
		id := mr.RootID()
		for _, comp := range p {
			cid, _, err := mr.GetChild(id, comp)
			if err != nil {
				return nil, fmt.Errorf("GetChild %v: %w", p, err)
			}
			id = cid
		}
		in.ids[f] = id
		if id > maxID {
			maxID = id
		}
	}
	// the cache keys of the chunks (and whole files) of this layer under THIS instance's node ids (the memory store
	// numbers nodes in map order, so ids differ between instances); any other key is resolved by fullKeys on demand
	in.maxID = maxID
	for _, c := range b.layout.Chunks {
		in.keys[c02GenID(in.ids[c[0]], int64(c[1]), int64(c[2]))] = [3]int{c[0], c[1], c[2]}
	}
	for _, fs := range b.layout.Sizes {
		in.keys[c02GenID(in.ids[fs[0]], 0, int64(fs[1]))] = [3]int{fs[0], 0, fs[1]}
	}
	return in, nil
}

func (in *c02Inst) close() {
	in.vr.Close()
	for _, f := range in.cleanup {
		f()
	}
}

func (in *c02Inst) resetEvent(storeName string) map[string]any {
	return map[string]any{"ev": "Reset", "cfg": in.b.l.Name, "store": storeName, "via": in.b.l.Via, "cachekind": in.b.l.Cache,
		"sizes": in.b.layout.Sizes, "chunks": in.b.layout.Chunks, "prefetch": in.b.layout.Prefetch, "tar": in.b.l.Entries}
}

func c02Ints(b []byte) []int {
	r := make([]int, len(b))
	for i, x := range b {
		r[i] = int(x)
	}
	return r
}

// snapshot of the chunk cache: [f, off, size, bytes] for every entry a Get would hit
func (in *c02Inst) snapshot() [][]any {
	in.cc.mu.Lock()
	keys := make([]string, 0, len(in.cc.present))
	for k := range in.cc.present {
		keys = append(keys, k)
	}
	in.cc.mu.Unlock()
	sort.Strings(keys)
	res := [][]any{}
	for _, k := range keys {
		r, err := in.cc.Get(k)
		if err != nil {
			continue
		}
		buf := make([]byte, 256)
		n, _ := r.ReadAt(buf, 0)
		r.Close()
		id, ok := in.keys[k]
		if !ok {
			id, ok = in.fullKeys()[k]
		}
		if !ok {
			id = [3]int{-1000, 0, 0}
		}
		res = append(res, []any{id[0], id[1], id[2], c02Ints(buf[:n])})
	}
	sort.Slice(res, func(i, j int) bool {
		for x := 0; x < 3; x++ {
			if res[i][x].(int) != res[j][x].(int) {
				return res[i][x].(int) < res[j][x].(int)
			}
		}
		return false
	})
	return res
}

// fullKeys maps every key genID(id, off, size) with a node id of this layer, off <= max file size + 1 and size up to
// the largest chunk + 2 (or a whole file) back to (model file or -(id+1), off, size): a chunk cached under a wrong
// id, offset or size is then still recorded as what it is
func (in *c02Inst) fullKeys() map[string][3]int {
	if in.full != nil {
		return in.full
	}
	b := in.b
	rev := map[uint32]int{}
	for f, id := range in.ids {
		rev[id] = f
	}
	maxChunk := 0
	for _, c := range b.layout.Chunks {
		if c[2] > maxChunk {
			maxChunk = c[2]
		}
	}
	sizes := map[int]bool{}
	for sz := 0; sz <= maxChunk+2; sz++ {
		sizes[sz] = true
	}
	for _, fs := range b.layout.Sizes {
		sizes[fs[1]] = true
	}
	keys := map[string][3]int{}
	for id := uint32(0); id <= in.maxID+3; id++ {
		f, ok := rev[id]
		if !ok {
			f = -int(id) - 1 // a node that is not a regular file of the model
		}
		for off := 0; off <= b.maxSize+1; off++ {
			for size := range sizes {
				keys[c02GenID(id, int64(off), int64(size))] = [3]int{f, off, size}
			}
		}
	}
	in.full = keys
	return keys
}

func (in *c02Inst) walk(p []string) (*node, syscall.Errno) {
	in.nmu.Lock()
	defer in.nmu.Unlock()
	d := in.root
	for i, name := range p {
		key := strings.Join(p[:i+1], "/")
		if n, ok := in.nodes[key]; ok {
			d = n
			continue
		}
		var eo fuse.EntryOut
		di, errno := d.Lookup(context.Background(), name, &eo)
		if errno != 0 {
			return nil, errno
		}
		n, ok := di.Operations().(*node)
		if !ok {
			return nil, syscall.ENOTSUP
		}
		in.nodes[key] = n
		d = n
	}
	return d, 0
}

// c02Hung is set when a read did not return: a hanging read is recorded as a failed read (never equal to the
// source), the walks stop recording further steps and the test ends instead of spinning until the go test timeout.
var c02Hung atomic.Bool

const c02ReadTimeout = 30 * time.Second

func (in *c02Inst) read(f int, off int64, length int) map[string]any {
	ch := make(chan map[string]any, 1)
	go func() { ch <- in.readInner(f, off, length) }()
	select {
	case r := <-ch:
		return r
	case <-time.After(c02ReadTimeout):
		c02Hung.Store(true)
		return map[string]any{"n": 0, "err": true, "bytes": []int{}, "msg": fmt.Sprintf("hang: read did not return within %v", c02ReadTimeout)}
	}
}

func (in *c02Inst) readInner(f int, off int64, length int) (res map[string]any) {
	res = map[string]any{"n": 0, "err": false, "bytes": []int{}}
	// a panic of the read path while serving a well-formed layer is recorded as what it is: a failed read
	defer func() {
		if r := recover(); r != nil {
			res = map[string]any{"n": 0, "err": true, "bytes": []int{}, "msg": fmt.Sprintf("panic: %v", r)}
		}
	}()
	if in.b.l.Via == "reader" {
		ra, err := in.rr.OpenFile(in.ids[f])
		if err != nil {
			res["err"], res["msg"] = true, err.Error()
			return res
		}
		p := make([]byte, length)
		n, err := ra.ReadAt(p, off)
		if err != nil && err != io.EOF {
			res["err"], res["msg"] = true, err.Error()
			return res
		}
		res["n"], res["bytes"] = n, c02Ints(p[:n])
		return res
	}
	n, errno := in.walk(in.b.paths[f])
	if errno != 0 {
		res["err"], res["msg"] = true, "lookup: "+errno.Error()
		return res
	}
	fh, _, errno := n.Open(context.Background(), 0)
	if errno != 0 {
		res["err"], res["msg"] = true, "open: "+errno.Error()
		return res
	}
	rr, errno := fh.(*file).Read(context.Background(), make([]byte, length), off)
	if errno != 0 {
		res["err"], res["msg"] = true, "read: "+errno.Error()
		return res
	}
	buf, status := rr.Bytes(make([]byte, length))
	if status != fuse.OK {
		res["err"], res["msg"] = true, "read result"
		return res
	}
	res["n"], res["bytes"] = len(buf), c02Ints(buf)
	return res
}

func (in *c02Inst) fill(prefetch bool) string {
	var err error
	if prefetch {
		lmOff, gerr := in.mr.GetOffset(in.ids[c02LM])
		if gerr != nil {
			return gerr.Error()
		}
		err = in.vr.Cache(reader.WithFilter(func(off int64) bool { return off < lmOff }))
	} else {
		err = in.vr.Cache()
	}
	if err != nil {
		return err.Error()
	}
	return ""
}

func (in *c02Inst) attr(a *fuse.Attr) map[string]any {
	ino, ok := in.inos[a.Ino]
	if !ok {
		ino = len(in.inos) + 1
		in.inos[a.Ino] = ino
	}
	return map[string]any{"ino": ino, "mode": int(a.Mode), "size": int(a.Size), "nlink": int(a.Nlink), "uid": int(a.Uid), "gid": int(a.Gid),
		// the served device number: raw rdev (hex) and the pair the kernel decodes from it (unix.Major / unix.Minor)
		"rdev": fmt.Sprintf("%#x", a.Rdev), "major": int(unix.Major(uint64(a.Rdev))), "minor": int(unix.Minor(uint64(a.Rdev))), "mtime": int(a.Mtime)}
}

func c02Path(v any) []string {
	var p []string
	if arr, ok := v.([]any); ok {
		for _, x := range arr {
			p = append(p, x.(string))
		}
	}
	return p
}

var c02NoAttr = map[string]any{"rdev": "0x0", "ino": 0, "mode": 0, "size": 0, "nlink": 0, "uid": 0, "gid": 0, "major": 0, "minor": 0, "mtime": 0}

// step executes one step of a walk and returns the event to record
func (in *c02Inst) step(s map[string]any) map[string]any {
	num := func(k string) int { x, _ := s[k].(float64); return int(x) }
	ev := map[string]any{"ev": s["act"]}
	switch s["act"] {
	case "Read":
		ev["f"], ev["off"], ev["len"] = num("f"), num("off"), num("len")
		ev["res"] = in.read(num("f"), int64(num("off")), num("len"))
		ev["cache"] = in.snapshot()
	case "Evict":
		ev["f"], ev["off"], ev["size"] = num("f"), num("off"), num("size")
		in.cc.evict(c02GenID(in.ids[num("f")], int64(num("off")), int64(num("size"))))
		ev["cache"] = in.snapshot()
	case "Prefetch", "BackgroundFetch":
		ev["msg"] = in.fill(s["act"] == "Prefetch")
		ev["cache"] = in.snapshot()
	case "Lookup":
		dir, name := c02Path(s["dir"]), s["name"].(string)
		ev["dir"], ev["name"] = append([]string{}, dir...), name
		res := map[string]any{"errno": 0, "attr": c02NoAttr}
		d, errno := in.walk(dir)
		if errno == 0 {
			var eo fuse.EntryOut
			var di *fusefs.Inode
			di, errno = d.Lookup(context.Background(), name, &eo)
			if errno == 0 {
				res["attr"] = in.attr(&eo.Attr)
				key := strings.Join(append(append([]string{}, dir...), name), "/")
				if n, ok := di.Operations().(*node); ok && in.nodes[key] == nil {
					in.nodes[key] = n
				}
			}
		}
		res["errno"] = int(errno)
		ev["res"] = res
	case "Readdir":
		dir := c02Path(s["dir"])
		ev["dir"] = append([]string{}, dir...)
		res := map[string]any{"errno": 0, "ents": [][]any{}}
		d, errno := in.walk(dir)
		if errno == 0 {
			var ds fusefs.DirStream
			ds, errno = d.Readdir(context.Background())
			if errno == 0 {
				ents := [][]any{}
				for ds.HasNext() {
					de, e2 := ds.Next()
					if e2 != 0 {
						errno = e2
						break
					}
					ents = append(ents, []any{de.Name, int(de.Mode & syscall.S_IFMT)})
				}
				res["ents"] = ents
			}
		}
		res["errno"] = int(errno)
		ev["res"] = res
	case "Getattr":
		p := c02Path(s["path"])
		ev["path"] = append([]string{}, p...)
		res := map[string]any{"errno": 0, "attr": c02NoAttr}
		n, errno := in.walk(p)
		if errno == 0 {
			var ao fuse.AttrOut
			errno = n.Getattr(context.Background(), nil, &ao)
			if errno == 0 {
				res["attr"] = in.attr(&ao.Attr)
			}
		}
		res["errno"] = int(errno)
		ev["res"] = res
	case "Readlink":
		p := c02Path(s["path"])
		ev["path"] = append([]string{}, p...)
		res := map[string]any{"errno": 0, "target": ""}
		n, errno := in.walk(p)
		if errno == 0 {
			var t []byte
			t, errno = n.Readlink(context.Background())
			res["target"] = string(t)
		}
		res["errno"] = int(errno)
		ev["res"] = res
	case "Getxattr":
		p, key := c02Path(s["path"]), s["key"].(string)
		ev["path"], ev["key"] = append([]string{}, p...), key
		res := map[string]any{"errno": 0, "val": ""}
		n, errno := in.walk(p)
		if errno == 0 {
			dest := make([]byte, 256)
			var sz uint32
			sz, errno = n.Getxattr(context.Background(), key, dest)
			if errno == 0 {
				res["val"] = string(dest[:sz])
			}
		}
		res["errno"] = int(errno)
		ev["res"] = res
	default:
		ev["res"] = map[string]any{"unknown": true}
	}
	return ev
}

// ---------------------------------------------------------------------------------------------- entry point
func c02WriteEvents(path string, traces [][]map[string]any) error {
	fh, err := os.Create(path)
	if err != nil {
		return err
	}
	defer fh.Close()
	enc := json.NewEncoder(fh)
	for _, tr := range traces {
		for _, e := range tr {
			if err := enc.Encode(e); err != nil {
				return err
			}
		}
	}
	return nil
}

// VerifC02 runs the jobs of $VERIF_IN against the given metadata store. Output files get the suffix ".<storeName>".
func VerifC02(t TestingT, store metadata.Store, storeName string) {
	raw, err := os.ReadFile(os.Getenv("VERIF_IN"))
	if err != nil {
		t.Fatalf("VERIF_IN: %v", err)
	}
	var in c02Input
	if err := json.Unmarshal(raw, &in); err != nil {
		t.Fatalf("VERIF_IN: %v", err)
	}
	if in.DumpOut != "" {
		dump := map[string]c02Layout{}
		for _, j := range in.Jobs {
			b, err := c02Build(j.Layer)
			if err != nil {
				t.Fatalf("build %s: %v", j.Layer.Name, err)
			}
			dump[j.Layer.Name] = b.layout
		}
		out, _ := json.Marshal(dump)
		if err := os.WriteFile(in.DumpOut, out, 0644); err != nil {
			t.Fatalf("dump: %v", err)
		}
		return
	}
	for _, j := range in.Jobs {
		b, err := c02Build(j.Layer)
		if err != nil {
			t.Fatalf("build %s: %v", j.Layer.Name, err)
		}
		var traces [][]map[string]any
		if j.Kind == "free" {
			traces, err = c02Free(b, store, storeName, j)
		} else {
			traces, err = c02Replay(b, store, storeName, j)
		}
		if err != nil {
			t.Fatalf("job %s (%s): %v", j.Layer.Name, storeName, err)
		}
		if err := c02WriteEvents(j.Out+"."+storeName, traces); err != nil {
			t.Fatalf("write: %v", err)
		}
	}
}

func c02Replay(b *c02Built, store metadata.Store, storeName string, j c02Job) ([][]map[string]any, error) {
	traces := make([][]map[string]any, len(j.Walks))
	errs := make([]error, len(j.Walks))
	sem := make(chan struct{}, 8)
	var wg sync.WaitGroup
	for wi, w := range j.Walks {
		wg.Add(1)
		sem <- struct{}{}
		go func() {
			defer wg.Done()
			defer func() { <-sem }()
			in, err := c02Serve(b, store)
			if err != nil {
				errs[wi] = err
				return
			}
			defer in.close()
			tr := []map[string]any{in.resetEvent(storeName)}
			for _, s := range w {
				if c02Hung.Load() {
					break
				}
				tr = append(tr, in.step(s))
			}
			traces[wi] = tr
		}()
	}
	wg.Wait()
	for _, e := range errs {
		if e != nil {
			return nil, e
		}
	}
	return traces, nil
}

// c02Free: concurrent readers of the same files plus a goroutine that evicts and runs prefetch / background
// fetch; results are recorded in completion order (monitor only: each result is judged on its own).
func c02Free(b *c02Built, store metadata.Store, storeName string, j c02Job) ([][]map[string]any, error) {
	var traces [][]map[string]any
	var base int64 = 1
	fmt.Sscan(os.Getenv("VERIF_SEED"), &base)
	var files []int
	for _, s := range b.layout.Sizes {
		if s[0] != c02LM {
			files = append(files, s[0])
		}
	}
	sizeOf := map[int]int{}
	for _, s := range b.layout.Sizes {
		sizeOf[s[0]] = s[1]
	}
	for ti := 0; ti < j.Traces; ti++ {
		in, err := c02Serve(b, store)
		if err != nil {
			return nil, err
		}
		var mu sync.Mutex
		tr := []map[string]any{in.resetEvent(storeName)}
		var wg sync.WaitGroup
		for g := 0; g < j.Readers; g++ {
			wg.Add(1)
			go func() {
				defer wg.Done()
				rng := rand.New(rand.NewSource(base*1000003 + int64(ti)*101 + int64(g)))
				for i := 0; i < j.Reads && !c02Hung.Load(); i++ {
					f := files[rng.Intn(len(files))]
					off := rng.Intn(sizeOf[f] + 2)
					length := 1 + rng.Intn(b.maxSize+2)
					res := in.read(f, int64(off), length)
					mu.Lock()
					tr = append(tr, map[string]any{"ev": "Read", "f": f, "off": off, "len": length, "res": res, "g": g})
					mu.Unlock()
				}
			}()
		}
		wg.Add(1)
		go func() {
			defer wg.Done()
			rng := rand.New(rand.NewSource(base*7919 + int64(ti)))
			for i := 0; i < j.Reads; i++ {
				switch rng.Intn(4) {
				case 0:
					in.fill(false)
				case 1:
					if b.layout.Prefetch {
						in.fill(true)
					}
				default:
					c := b.layout.Chunks[rng.Intn(len(b.layout.Chunks))]
					in.cc.evict(c02GenID(in.ids[c[0]], int64(c[1]), int64(c[2])))
				}
			}
		}()
		wg.Wait()
		tr = append(tr, map[string]any{"ev": "Snapshot", "cache": in.snapshot()})
		in.close()
		traces = append(traces, tr)
	}
	return traces, nil
}

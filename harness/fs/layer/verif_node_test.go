//go:build verif

package layer

// Property C07, memory metadata store: see verif_node.go (the driver body) and /verif/tools/props/C07.py.

import (
	"testing"

	memorymetadata "github.com/containerd/stargz-snapshotter/metadata/memory"
)

func TestVerifNode(t *testing.T) {
	VerifNodeDriver(t, memorymetadata.NewReader, "memory")
}

func TestVerifOverlay(t *testing.T) {
	VerifOverlayDriver(t, memorymetadata.NewReader, "memory")
}

//go:build verif

// Driver for property C15 (spec/Prefetch.tla). Non-test file so that the db metadata store of the cmd module can
// run it too (the way cmd/containerd-stargz-grpc/db/reader_test.go calls layer.TestSuiteLayer).
//
// The driver decides nothing. It builds real eStargz layers, resolves them with the real layer.Resolver over an
// in-memory registry (a remote.Handler that logs every request and can pass / fail / hold requests or be off),
// executes the steps of TLC-generated walks against Layer.Prefetch / WaitForPrefetchCompletion / BackgroundFetch
// and complete file reads, holding the prefetch goroutine at the verifhook gates in fs/layer/layer.go, and records
// what the implementation did: requested registry chunks per step, call results, wait outcome and duration, and the
// projection of the implementation state (registry chunks served so far, chunk-cache state of every regular file
// probed on disk, waiter channel closed?, Info().PrefetchSize). spec/PrefetchTrace.tla and PrefetchMonitor.tla decide.
package layer

import (
	"archive/tar"
	"bytes"
	"context"
	"crypto/sha256"
	"encoding/json"
	"fmt"
	"io"
	"math/rand"
	"os"
	"path/filepath"
	"sort"
	"strings"
	"sync"
	"time"

	"github.com/containerd/containerd/v2/pkg/reference"
	"github.com/containerd/stargz-snapshotter/estargz"
	"github.com/containerd/stargz-snapshotter/estargz/zstdchunked"
	"github.com/containerd/stargz-snapshotter/fs/config"
	"github.com/containerd/stargz-snapshotter/fs/remote"
	"github.com/containerd/stargz-snapshotter/metadata"
	"github.com/containerd/stargz-snapshotter/task"
	"github.com/containerd/stargz-snapshotter/util/verifhook"
	"github.com/klauspost/compress/zstd"
	digest "github.com/opencontainers/go-digest"
	ocispec "github.com/opencontainers/image-spec/specs-go/v1"
)

// ---------------------------------------------------------------------------------------------- input

type c15Ent struct {
	Name string `json:"name"` // tar name as written ("./" = root entry, "a/" = directory)
	Size int    `json:"size"` // regular file if > 0 (or Reg)
	Reg  bool   `json:"reg"`
}

type c15Scen struct {
	ID       string         `json:"id"`
	Ents     []c15Ent       `json:"ents"`
	Seed     int64          `json:"seed"`
	Chunk    int            `json:"chunk"`
	MinChunk int            `json:"minchunk"`
	Comp     string         `json:"comp"` // gzip | zstd
	Prio     []string       `json:"prio"`
	Landmark string         `json:"landmark"` // "build" (estargz.Build: prefetch / no-prefetch landmark) | "none" (plain writer)
	CS       int64          `json:"cs"`       // registry chunk size
	PCS      int64          `json:"pcs"`      // prefetch chunk size
	Cfg      int64          `json:"cfg"`      // configured prefetch size
	Thr      int64          `json:"thr"`      // PrefetchAsyncSize
	Cache    string         `json:"cache"`    // dir | memory (memory: chunk-cache state not observable)
	TmoMs    int            `json:"tmo"`      // prefetch timeout; 1000 = through config.PrefetchTimeoutSec
	NP       int            `json:"np"`
	NW       int            `json:"nw"`
	NB       int            `json:"nb"`
	Walks    [][]c15Step    `json:"walks"`
	Free     int            `json:"free"` // number of free-running executions
	Extra    map[string]any `json:"-"`
}

type c15Step map[string]any

type c15Input struct {
	Mode  string    `json:"mode"` // layout | replay | free
	Out   string    `json:"out"`
	Par   int       `json:"par"`
	Scens []c15Scen `json:"scens"`
}

// ---------------------------------------------------------------------------------------------- layers

type c15Built struct {
	blob    []byte
	toc     digest.Digest
	content map[string][]byte
}

func c15Content(seed int64, i, size int) []byte {
	r := rand.New(rand.NewSource(seed*1000 + int64(i)))
	b := make([]byte, size)
	r.Read(b)
	return b
}

func c15Build(sc *c15Scen) (*c15Built, error) {
	tb := new(bytes.Buffer)
	tw := tar.NewWriter(tb)
	content := map[string][]byte{}
	for i, e := range sc.Ents {
		h := &tar.Header{Name: e.Name, Mode: 0644, ModTime: time.Unix(1000, 0), Format: tar.FormatPAX}
		if strings.HasSuffix(e.Name, "/") {
			h.Typeflag, h.Mode = tar.TypeDir, 0755
			if err := tw.WriteHeader(h); err != nil {
				return nil, err
			}
			continue
		}
		data := c15Content(sc.Seed, i, e.Size)
		h.Typeflag, h.Size = tar.TypeReg, int64(len(data))
		if err := tw.WriteHeader(h); err != nil {
			return nil, err
		}
		if _, err := tw.Write(data); err != nil {
			return nil, err
		}
		content[strings.TrimPrefix(strings.TrimPrefix(e.Name, "./"), "/")] = data
	}
	if err := tw.Close(); err != nil {
		return nil, err
	}
	var comp estargz.Compressor
	var full estargz.Compression
	switch sc.Comp {
	case "zstd":
		c := &c15Zstd{&zstdchunked.Compressor{CompressionLevel: zstd.SpeedFastest}, &zstdchunked.Decompressor{}}
		comp, full = c, c
	default:
		c := c15Gzip{estargz.NewGzipCompressorWithLevel(1), &estargz.GzipDecompressor{}}
		comp, full = c, c
	}
	tarData := tb.Bytes()
	out := new(bytes.Buffer)
	var toc digest.Digest
	if sc.Landmark == "none" {
		w := estargz.NewWriterWithCompressor(out, comp)
		w.ChunkSize, w.MinChunkSize = sc.Chunk, sc.MinChunk
		if err := w.AppendTar(bytes.NewReader(tarData)); err != nil {
			return nil, err
		}
		d, err := w.Close()
		if err != nil {
			return nil, err
		}
		toc = d
	} else {
		rc, err := estargz.Build(io.NewSectionReader(bytes.NewReader(tarData), 0, int64(len(tarData))),
			estargz.WithChunkSize(sc.Chunk), estargz.WithMinChunkSize(sc.MinChunk),
			estargz.WithPrioritizedFiles(sc.Prio), estargz.WithCompression(full))
		if err != nil {
			return nil, err
		}
		if _, err := io.Copy(out, rc); err != nil {
			return nil, err
		}
		rc.Close()
		toc = rc.TOCDigest()
	}
	return &c15Built{blob: out.Bytes(), toc: toc, content: content}, nil
}

type c15Zstd struct {
	*zstdchunked.Compressor
	*zstdchunked.Decompressor
}

type c15Gzip struct {
	*estargz.GzipCompressor
	*estargz.GzipDecompressor
}

// ---------------------------------------------------------------------------------------------- registry

type c15Reg struct {
	mu     sync.Mutex
	data   []byte
	cs     int64
	mode   string // foreground requests (prefetch, on-demand reads): pass | fail | hold
	bgmode string // requests of background fetch (told apart by the 120 s deadline of InvokeBackgroundTask's context)
	off    bool
	failAt int // free-run: fail the n-th request from now (0 = never)
	delay  time.Duration
	held   map[bool][]chan string // by origin (true = background)
	nreq   int
	step   map[bool]map[int]bool // registry chunks requested since the last take(), by origin
	served map[int]bool
}

func (r *c15Reg) Handle(ctx context.Context, desc ocispec.Descriptor) (remote.Fetcher, int64, error) {
	return r, int64(len(r.data)), nil
}

func (r *c15Reg) chunks(off, size int64) (res []int) {
	if size <= 0 {
		return nil
	}
	for i := off / r.cs; i <= (off+size-1)/r.cs; i++ {
		res = append(res, int(i))
	}
	return
}

func (r *c15Reg) Fetch(ctx context.Context, off int64, size int64) (io.ReadCloser, error) {
	dl, hasDl := ctx.Deadline()
	bg := hasDl && time.Until(dl) > 60*time.Second // blob fetch timeout is 30 s, a background task's context lives 120 s
	r.mu.Lock()
	r.nreq++
	cks := r.chunks(off, size)
	for _, c := range cks {
		r.step[bg][c] = true
	}
	verdict := r.mode
	if bg {
		verdict = r.bgmode
	}
	if r.off {
		verdict = "fail"
	}
	if r.failAt > 0 {
		r.failAt--
		if r.failAt == 0 {
			verdict = "fail"
		}
	}
	delay := r.delay
	var ch chan string
	if verdict == "hold" {
		ch = make(chan string, 1)
		r.held[bg] = append(r.held[bg], ch)
	}
	r.mu.Unlock()
	if ch != nil {
		select {
		case verdict = <-ch:
		case <-ctx.Done():
			r.mu.Lock()
			for i, h := range r.held[bg] {
				if h == ch {
					r.held[bg] = append(r.held[bg][:i], r.held[bg][i+1:]...)
					break
				}
			}
			r.mu.Unlock()
			return nil, ctx.Err()
		}
	}
	if delay > 0 {
		time.Sleep(delay)
	}
	if verdict != "pass" {
		return nil, fmt.Errorf("c15 registry: request %d-%d refused (%s)", off, size, verdict)
	}
	if off < 0 || off+size > int64(len(r.data)) {
		return nil, fmt.Errorf("c15 registry: range %d-%d outside the blob", off, size)
	}
	r.mu.Lock()
	for _, c := range cks {
		r.served[c] = true
	}
	r.mu.Unlock()
	return io.NopCloser(bytes.NewReader(r.data[off : off+size])), nil
}

func (r *c15Reg) Check() error {
	r.mu.Lock()
	defer r.mu.Unlock()
	if r.off {
		return fmt.Errorf("c15 registry: unreachable")
	}
	return nil
}

func (r *c15Reg) GenID(off int64, size int64) string { return fmt.Sprintf("b%010d-%010d", off, size) }

func (r *c15Reg) setMode(bg bool, m string) {
	r.mu.Lock()
	if bg {
		r.bgmode = m
	} else {
		r.mode = m
	}
	r.mu.Unlock()
}

// release answers every held request of that origin according to verdict
func (r *c15Reg) release(bg bool, verdict string) {
	r.mu.Lock()
	h := r.held[bg]
	r.held[bg] = nil
	r.mu.Unlock()
	for _, ch := range h {
		ch <- verdict
	}
}

func (r *c15Reg) heldCount(bg bool) int {
	r.mu.Lock()
	defer r.mu.Unlock()
	return len(r.held[bg])
}

func c15Sorted(m map[int]bool) []int {
	res := []int{}
	for k := range m {
		res = append(res, k)
	}
	sort.Ints(res)
	return res
}

func (r *c15Reg) take(bg bool) []int {
	r.mu.Lock()
	defer r.mu.Unlock()
	res := c15Sorted(r.step[bg])
	r.step[bg] = map[int]bool{}
	return res
}

func (r *c15Reg) takeAll() []int {
	m := map[int]bool{}
	for _, c := range append(r.take(false), r.take(true)...) {
		m[c] = true
	}
	return c15Sorted(m)
}

func (r *c15Reg) servedSet() []int {
	r.mu.Lock()
	defer r.mu.Unlock()
	return c15Sorted(r.served)
}

// ---------------------------------------------------------------------------------------------- gates

type c15Gate struct {
	name string
	kv   []any
	rel  chan struct{}
}

var (
	c15Mu     sync.Mutex
	c15Layers = map[*layer]chan *c15Gate{}
	c15Frees  = map[*layer]*c15Track{}  // free-running layers: gates do not block, the last one passed is remembered
	c15FreeWs = map[*waiter]*c15Track{} // ... found by their waiter when it closes
)

// c15Track follows a free-running prefetch: which gate it passed last, and who closes the waiter when
type c15Track struct {
	mu    sync.Mutex
	e     *c15Env
	rec   *c15Rec
	last  string
	waits map[int64]bool // goroutines that are inside WaitForPrefetchCompletion
}

func c15InstallEvents() {
	verifhook.SetEvent(func(name string, kv ...any) {
		if name != "layer.waiter.closed" || len(kv) == 0 {
			return
		}
		w, ok := kv[0].(*waiter)
		if !ok {
			return
		}
		c15Mu.Lock()
		t := c15FreeWs[w]
		c15Mu.Unlock()
		if t == nil {
			return
		}
		t.mu.Lock()
		at, by := t.last, "prefetch"
		if t.waits[verifhook.Goid()] {
			by = "wait" // the timeout branch of a waiting call
		}
		t.mu.Unlock()
		o := t.e.obs()
		o["wclosed"] = true // the hook sits right after close(doneCh)
		t.rec.add(map[string]any{"ev": "WaiterClosed", "at": at, "by": by, "req": []int{}, "obs": o})
	})
}

func c15InstallGates() {
	verifhook.SetGate(func(name string, kv ...any) {
		if !strings.HasPrefix(name, "layer.") || len(kv) == 0 {
			return
		}
		l, ok := kv[0].(*layer)
		if !ok {
			return
		}
		c15Mu.Lock()
		ch := c15Layers[l]
		t := c15Frees[l]
		c15Mu.Unlock()
		if t != nil {
			t.mu.Lock()
			if strings.HasPrefix(name, "layer.prefetch.") {
				t.last = name
			}
			t.mu.Unlock()
			return
		}
		if ch == nil {
			return
		}
		g := &c15Gate{name: name, kv: kv, rel: make(chan struct{})}
		ch <- g
		<-g.rel
	})
}

// ---------------------------------------------------------------------------------------------- one mounted layer

type c15File struct {
	name   string
	id     uint32
	size   int64
	off    int64
	chunks [][2]int64 // chunk offset, size
	sum    [32]byte
	data   []byte // expected content (nil for landmark files)
}

type c15Env struct {
	sc      *c15Scen
	store   string
	root    string
	reg     *c15Reg
	tm      *task.BackgroundTaskManager
	res     *Resolver
	lr      Layer
	l       *layer
	files   []c15File
	lm      string
	loff    int64
	fsdir   string
	f0      []int
	gates   chan *c15Gate
	tmo     time.Duration
	pfGate  *c15Gate
	bgGate  *c15Gate
	pfStall bool
	bgStall bool
	pret    map[int]chan error
	bret    map[int]chan error
	wret    map[int]chan c15WaitRes
	wdone   map[int]bool
	prio    int
	runner  int
	brunner int
	pfPrio  bool // the prefetch body holds a prioritized task (between Range and PrefetchEnd)
	bgSusp  bool // background fetch was cancelled by a prioritized task and has not resumed
}

type c15WaitRes struct {
	err error
	ms  int64
}

const c15Silence = 5 * time.Millisecond

func c15Mount(sc *c15Scen, b *c15Built, store metadata.Store, storeName string, gated bool) (*c15Env, error) {
	root, err := os.MkdirTemp(os.Getenv("VERIF_SCRATCH"), "c15-")
	if err != nil {
		return nil, err
	}
	e := &c15Env{sc: sc, store: storeName, root: root, pret: map[int]chan error{}, bret: map[int]chan error{},
		wret: map[int]chan c15WaitRes{}, wdone: map[int]bool{}}
	e.reg = &c15Reg{data: b.blob, cs: sc.CS, mode: "pass", bgmode: "pass", step: map[bool]map[int]bool{false: {}, true: {}}, served: map[int]bool{}, held: map[bool][]chan string{}}
	if gated {
		e.reg.bgmode = "hold" // requests of background fetch wait for the walk's BgFinish
	}
	e.tm = task.NewBackgroundTaskManager(4, c15Silence)
	cfg := config.Config{
		PrefetchTimeoutSec:   1,
		PrefetchAsyncSize:    sc.Thr,
		DirectoryCacheConfig: config.DirectoryCacheConfig{SyncAdd: true},
		BlobConfig:           config.BlobConfig{ChunkSize: sc.CS, PrefetchChunkSize: sc.PCS, ValidInterval: 3600, FetchTimeoutSec: 30},
	}
	if sc.Cache == "memory" {
		cfg.FSCacheType, cfg.HTTPCacheType = memoryCacheType, memoryCacheType
	}
	e.res, err = NewResolver(root, e.tm, cfg, map[string]remote.Handler{"c15": e.reg}, store, OverlayOpaqueAll, nil)
	if err != nil {
		return nil, err
	}
	e.tmo = time.Second
	if sc.TmoMs > 0 && sc.TmoMs != 1000 {
		e.tmo = time.Duration(sc.TmoMs) * time.Millisecond
		e.res.prefetchTimeout = e.tmo
	}
	refspec, err := reference.Parse("registry.example.com/c15/" + strings.ToLower(strings.ReplaceAll(sc.ID, "_", "-")) + ":v1")
	if err != nil {
		return nil, err
	}
	desc := ocispec.Descriptor{Digest: digest.FromBytes(b.blob), Size: int64(len(b.blob))}
	e.lr, err = e.res.Resolve(context.Background(), nil, refspec, desc)
	if err != nil {
		return nil, fmt.Errorf("resolve: %w", err)
	}
	e.l = e.lr.(*layerRef).layer
	if err := e.l.Verify(b.toc); err != nil {
		return nil, fmt.Errorf("verify: %w", err)
	}
	if sc.Cache != "memory" {
		ds, _ := filepath.Glob(filepath.Join(root, "fscache", "*"))
		if len(ds) != 1 {
			return nil, fmt.Errorf("fscache directories: %v", ds)
		}
		e.fsdir = ds[0]
	}
	// regular files of the layer as the metadata store presents them (bounded walk: the driver must not hang on a cyclic tree)
	mr := e.l.verifiableReader.Metadata()
	rootID := mr.RootID()
	seen := map[uint32]bool{}
	var walk func(id uint32, p string, depth int) error
	walk = func(id uint32, p string, depth int) error {
		if depth > 50 {
			return nil
		}
		var inner error
		err := mr.ForeachChild(id, func(name string, cid uint32, mode os.FileMode) bool {
			if mode.IsDir() {
				if cid == id || name == "" || name == "." {
					return true
				}
				if inner = walk(cid, p+name+"/", depth+1); inner != nil {
					return false
				}
				return true
			}
			if !mode.IsRegular() || (id == rootID && name == estargz.TOCTarName) || seen[cid] {
				return true
			}
			seen[cid] = true
			attr, err := mr.GetAttr(cid)
			if err != nil {
				inner = err
				return false
			}
			off, err := mr.GetOffset(cid)
			if err != nil {
				inner = err
				return false
			}
			f := c15File{name: p + name, id: cid, size: attr.Size, off: off}
			fr, err := mr.OpenFile(cid)
			if err != nil {
				inner = err
				return false
			}
			for n := int64(0); n < attr.Size; {
				co, cs, _, ok := fr.ChunkEntryForOffset(n)
				if !ok {
					break
				}
				f.chunks = append(f.chunks, [2]int64{co, cs})
				n = co + cs
			}
			if data, ok := b.content[f.name]; ok {
				f.data = data
				f.sum = sha256.Sum256(data)
			} else {
				f.sum = sha256.Sum256([]byte{0xf}) // landmark files hold the single byte 0xf
			}
			e.files = append(e.files, f)
			return true
		})
		if inner != nil {
			return inner
		}
		return err
	}
	if err := walk(rootID, "", 0); err != nil {
		return nil, fmt.Errorf("listing files: %w", err)
	}
	sort.Slice(e.files, func(i, j int) bool {
		if e.files[i].off != e.files[j].off {
			return e.files[i].off < e.files[j].off
		}
		return e.files[i].name < e.files[j].name
	})
	e.lm = "none"
	if _, _, err := mr.GetChild(rootID, estargz.NoPrefetchLandmark); err == nil {
		e.lm = "noprefetch"
	} else if id, _, err := mr.GetChild(rootID, estargz.PrefetchLandmark); err == nil {
		e.lm = "prefetch"
		e.loff, _ = mr.GetOffset(id)
	}
	if e.lm == "noprefetch" {
		for _, f := range e.files {
			if f.name == estargz.NoPrefetchLandmark {
				e.loff = f.off
			}
		}
	}
	e.f0 = e.reg.servedSet()
	e.reg.takeAll()
	if gated {
		e.gates = make(chan *c15Gate, 16)
		c15Mu.Lock()
		c15Layers[e.l] = e.gates
		c15Mu.Unlock()
	}
	return e, nil
}

func (e *c15Env) close() {
	c15Mu.Lock()
	delete(c15Layers, e.l)
	c15Mu.Unlock()
	if e.lr != nil {
		e.lr.Done()
		e.l.close()
	}
	os.RemoveAll(e.root)
}

func c15GenID(id uint32, offset, size int64) string {
	sum := sha256.Sum256(fmt.Appendf(nil, "%d-%d-%d", id, offset, size))
	return fmt.Sprintf("%x", sum)
}

// chunk-cache state of file i: 0 none, 1 some, 2 all chunks present (directory cache with SyncAdd: a committed chunk is a file)
func (e *c15Env) lstOf(i int) int {
	f := e.files[i]
	n := 0
	for _, c := range f.chunks {
		key := c15GenID(f.id, c[0], c[1])
		if _, err := os.Stat(filepath.Join(e.fsdir, key[:2], key)); err == nil {
			n++
		}
	}
	switch {
	case n == len(f.chunks):
		return 2
	case n > 0:
		return 1
	}
	return 0
}

func (e *c15Env) obs() map[string]any {
	o := map[string]any{"fetched": e.reg.servedSet(), "pinfo": e.l.Info().PrefetchSize}
	select {
	case <-e.l.prefetchWaiter.doneCh:
		o["wclosed"] = true
	default:
		o["wclosed"] = false
	}
	lst := []int{}
	if e.fsdir != "" {
		for i := range e.files {
			lst = append(lst, e.lstOf(i))
		}
	}
	o["lst"] = lst
	return o
}

// read file i completely through the verified reader
func (e *c15Env) read(i int) (ok bool, msg string) {
	f := e.files[i]
	r := e.l.reader()
	if r == nil {
		return false, "no reader"
	}
	ra, err := r.OpenFile(f.id)
	if err != nil {
		return false, err.Error()
	}
	h := sha256.New()
	n, err := io.Copy(h, io.NewSectionReader(ra, 0, f.size))
	if err != nil {
		return false, err.Error()
	}
	if n != f.size || !bytes.Equal(h.Sum(nil), f.sum[:]) {
		return false, fmt.Sprintf("content mismatch (%d of %d bytes)", n, f.size)
	}
	return true, ""
}

// read one chunk of file i (k = 1: the first, k = 2: a middle one) through the verified reader
func (e *c15Env) readPart(i, k int) (ok bool, msg string) {
	f := e.files[i]
	if len(f.chunks) < 3 || f.data == nil {
		return false, "not a multi-chunk file"
	}
	c := f.chunks[0]
	if k == 2 {
		c = f.chunks[len(f.chunks)/2]
	}
	r := e.l.reader()
	if r == nil {
		return false, "no reader"
	}
	ra, err := r.OpenFile(f.id)
	if err != nil {
		return false, err.Error()
	}
	buf := make([]byte, c[1])
	n, err := ra.ReadAt(buf, c[0])
	if err != nil && err != io.EOF {
		return false, err.Error()
	}
	if int64(n) != c[1] || !bytes.Equal(buf, f.data[c[0]:c[0]+c[1]]) {
		return false, fmt.Sprintf("content mismatch (%d of %d bytes)", n, c[1])
	}
	return true, ""
}

// layout of the layer in the terms of Prefetch.tla; span/pre are measured on a metadata reader of the same store
// over a recording section reader (bytes touched while reading each file alone, in both ways the code reads files)
type c15Measured struct {
	once sync.Once
	v    map[string]any
	err  error
}

var c15ScenCache sync.Map

// the layout is measured once per scenario and store, however many walks run on it in parallel
func (e *c15Env) scenario(b *c15Built, store metadata.Store) (map[string]any, error) {
	key := e.sc.ID + "/" + e.store
	c, _ := c15ScenCache.LoadOrStore(key, &c15Measured{})
	m := c.(*c15Measured)
	m.once.Do(func() { m.v, m.err = e.measure(b, store) })
	return m.v, m.err
}

func (e *c15Env) measure(b *c15Built, store metadata.Store) (map[string]any, error) {
	var mu sync.Mutex
	touched := map[int]bool{}
	rec := io.NewSectionReader(readerAtFunc(func(p []byte, off int64) (int, error) {
		mu.Lock()
		for _, c := range e.reg.chunks(off, int64(len(p))) {
			if int64(c)*e.reg.cs < int64(len(b.blob)) {
				touched[c] = true
			}
		}
		mu.Unlock()
		return bytes.NewReader(b.blob).ReadAt(p, off)
	}), 0, int64(len(b.blob)))
	mr, err := store(rec, metadata.WithDecompressors(new(zstdchunked.Decompressor)))
	if err != nil {
		return nil, err
	}
	defer mr.Close()
	// ids are private to a metadata reader: find the files of this second reader by name
	ids := make([]uint32, len(e.files))
	idx := map[uint32]int{}
	for i, f := range e.files {
		id := mr.RootID()
		for _, c := range strings.Split(f.name, "/") {
			cid, _, err := mr.GetChild(id, c)
			if err != nil {
				return nil, fmt.Errorf("lookup %q: %w", f.name, err)
			}
			id = cid
		}
		ids[i] = id
		idx[id] = i
	}
	span, pre, prf, off := [][]int{}, [][]int{}, [][]int{}, []int64{}
	for i, f := range e.files {
		mu.Lock()
		touched = map[int]bool{}
		mu.Unlock()
		pres := map[int]bool{}
		seenChunks := map[int]map[int64]bool{}
		fr, err := mr.OpenFileWithPreReader(ids[i], func(nid uint32, co, cs int64, dg string, r io.Reader) error {
			if j, ok := idx[nid]; ok && j != i {
				pres[j+1] = true
				if seenChunks[j+1] == nil {
					seenChunks[j+1] = map[int64]bool{}
				}
				seenChunks[j+1][co] = true
			}
			_, err := io.Copy(io.Discard, r)
			return err
		})
		if err != nil {
			return nil, err
		}
		for _, c := range f.chunks {
			// one ReadAt per chunk, as readAndCache (Peek of the chunk size) and the on-demand path do
			buf := make([]byte, c[1])
			if _, err := fr.ReadAt(buf, c[0]); err != nil && err != io.EOF {
				return nil, err
			}
		}
		fr2, err := mr.OpenFile(ids[i])
		if err != nil {
			return nil, err
		}
		for _, c := range f.chunks {
			buf := make([]byte, c[1])
			if _, err := fr2.ReadAt(buf, c[0]); err != nil && err != io.EOF {
				return nil, err
			}
		}
		mu.Lock()
		span = append(span, c15Sorted(touched))
		mu.Unlock()
		full := map[int]bool{}
		for j, cs := range seenChunks {
			if len(cs) == len(e.files[j-1].chunks) {
				full[j] = true
				delete(pres, j)
			}
		}
		pre = append(pre, c15Sorted(pres))
		prf = append(prf, c15Sorted(full))
		off = append(off, f.off)
	}
	prio := []int{}
	names := []string{}
	for i, f := range e.files {
		names = append(names, f.name)
		for _, p := range e.sc.Prio {
			if strings.TrimPrefix(p, "./") == f.name {
				prio = append(prio, i+1)
			}
		}
	}
	rd, pt, nch := []int{}, []int{}, []int{}
	for i := range e.files {
		rd = append(rd, i+1)
		nch = append(nch, len(e.files[i].chunks))
		if len(e.files[i].chunks) >= 3 && e.files[i].data != nil && len(pre[i]) == 0 && len(prf[i]) == 0 {
			pt = append(pt, i+1)
		}
	}
	tmo := e.sc.TmoMs
	if tmo == 0 {
		tmo = 1000
	}
	return map[string]any{"id": e.sc.ID + "/" + e.store, "nf": len(e.files), "names": names, "off": off, "span": span, "pre": pre, "prf": prf, "prio": prio,
		"lm": e.lm, "loff": e.loff, "size": len(b.blob), "cs": e.sc.CS, "cfg": e.sc.Cfg, "thr": e.sc.Thr, "f0": e.f0,
		"np": e.sc.NP, "nw": e.sc.NW, "nb": e.sc.NB, "tmo": tmo, "rd": rd, "ro": 2, "pt": pt, "nch": nch, "free": false, "haslst": e.fsdir != ""}, nil
}

// ---------------------------------------------------------------------------------------------- replay of walks

type c15Rec struct {
	mu  sync.Mutex
	evs []map[string]any
}

func (r *c15Rec) add(e map[string]any) {
	r.mu.Lock()
	r.evs = append(r.evs, e)
	r.mu.Unlock()
}

func (e *c15Env) nextGate(prefix string, d time.Duration) *c15Gate {
	deadline := time.After(d)
	for {
		select {
		case g := <-e.gates:
			if strings.HasPrefix(g.name, prefix) {
				return g
			}
			// a gate of the other activity: park it
			if strings.HasPrefix(g.name, "layer.bgfetch") {
				e.bgGate = g
			} else {
				e.pfGate = g
			}
		case <-deadline:
			return nil
		}
	}
}

const c15Tick = time.Millisecond

// waitHeld waits until requests of that origin are held back by the registry (want) or none is (!want)
func (e *c15Env) waitHeld(bg, want bool, d time.Duration) bool {
	end := time.Now().Add(d)
	for time.Now().Before(end) {
		if (e.reg.heldCount(bg) > 0) == want {
			if want {
				time.Sleep(5 * c15Tick) // parallel requests of the same call
			}
			return true
		}
		time.Sleep(c15Tick)
	}
	return false
}

// bgResumed: the background fetch may run again (no prioritized task): it re-issues its requests, which the registry
// holds, or it finds everything in the caches and returns
func (e *c15Env) bgResumed() {
	if !e.bgSusp || e.prio > 0 || e.pfPrio {
		return
	}
	e.bgSusp = false
	end := time.Now().Add(c15Long)
	for time.Now().Before(end) {
		if e.reg.heldCount(true) > 0 {
			time.Sleep(5 * c15Tick)
			e.bgStall = true
			return
		}
		if ch := e.bret[e.brunner]; ch != nil && len(ch) > 0 {
			return
		}
		time.Sleep(c15Tick)
	}
}

// bgSuspended: a prioritized task began: running background bodies are cancelled, their held requests return
func (e *c15Env) bgSuspended() {
	if e.bgStall {
		e.waitHeld(true, false, c15Long)
		e.bgStall, e.bgSusp = false, true
	}
}

func c15Int(v any) int {
	switch x := v.(type) {
	case float64:
		return int(x)
	case int:
		return x
	}
	return 0
}

// the environment choice of a step: "cause" where the spec's record has it (ReaderCache, BgFinish), else "r"
func c15R(s c15Step) string {
	if c, ok := s["cause"].(string); ok {
		return c
	}
	r, _ := s["r"].(string)
	return r
}

func c15Res(err error) string {
	if err == nil {
		return "ok"
	}
	return "fail"
}

// waiters that have returned with a timeout error without being asked (real time passed): logged as they are seen
func (e *c15Env) pollWaiters(out *[]map[string]any) {
	closed := false
	select {
	case <-e.l.prefetchWaiter.doneCh:
		closed = true // every waiting call returns now: wait for it instead of guessing
	default:
	}
	for w, ch := range e.wret {
		if e.wdone[w] {
			continue
		}
		var r c15WaitRes
		if closed {
			select {
			case r = <-ch:
			case <-time.After(c15Long):
				continue
			}
		} else {
			select {
			case r = <-ch:
			default:
				continue
			}
		}
		if r.err != nil {
			e.wdone[w] = true
			*out = append(*out, map[string]any{"ev": "WaitTimeout", "w": w, "res": "timeout", "ms": r.ms, "spont": true, "req": []int{}})
		} else {
			ch <- r // a nil return is reported when the walk asks for it
		}
	}
}

const c15Long = 20 * time.Second

var c15Modes = map[string]string{"ok": "pass", "fail": "fail", "cachefail": "pass"}

// cacheFault makes every Add of the layer's chunk cache fail (the directory cache creates its work-in-progress files in
// <dir>/wip: without that directory os.CreateTemp fails, as with ENOSPC); the returned function ends the fault
func (e *c15Env) cacheFault() func() {
	if e.fsdir == "" {
		return func() {}
	}
	wip := filepath.Join(e.fsdir, "wip")
	if err := os.Rename(wip, wip+".off"); err != nil {
		return func() {}
	}
	return func() { os.Rename(wip+".off", wip) }
}

// step executes one spec action if it is applicable to the implementation's present situation; returns the events
func (e *c15Env) step(s c15Step) (evs []map[string]any, applied bool) {
	act, _ := s["act"].(string)
	ev := map[string]any{"ev": act}
	applied = true
	switch act {
	case "PrefetchCall":
		p := c15Int(s["p"])
		ch := make(chan error, 1)
		e.pret[p] = ch
		go func() { ch <- e.l.Prefetch(e.sc.Cfg) }()
		ev["p"] = p
		ev["won"] = false
		if e.runner == 0 {
			// nobody has taken the Once yet: this call must reach the first gate
			if g := e.nextGate("layer.prefetch.start", c15Long); g != nil {
				e.pfGate, e.runner = g, p
				ev["won"] = true
			}
		}
	case "Range":
		if e.pfGate == nil || e.pfGate.name != "layer.prefetch.start" {
			return nil, false
		}
		close(e.pfGate.rel)
		e.pfGate = e.nextGate("layer.prefetch.", c15Long)
		e.pfPrio = true
		ev["size"] = -1
		if e.pfGate != nil && e.pfGate.name == "layer.prefetch.range" {
			ev["size"] = e.pfGate.kv[1].(int64)
		}
		e.bgSuspended()
	case "AsyncThreshold":
		if e.pfGate == nil || e.pfGate.name != "layer.prefetch.range" {
			return nil, false
		}
		close(e.pfGate.rel)
		e.pfGate = e.nextGate("layer.prefetch.fetch", c15Long)
	case "BlobCacheStall":
		if e.pfGate == nil || e.pfGate.name != "layer.prefetch.fetch" {
			return nil, false
		}
		e.reg.setMode(false, "hold")
		close(e.pfGate.rel)
		e.pfGate = nil
		// either a request is held, or nothing had to be requested and the call went through to the next gate
		end := time.Now().Add(c15Long)
		for e.pfGate == nil && time.Now().Before(end) {
			if e.reg.heldCount(false) > 0 {
				time.Sleep(5 * c15Tick)
				e.pfStall = true
				break
			}
			e.pfGate = e.nextGate("layer.prefetch.fetched", c15Tick)
		}
		if !e.pfStall {
			// no request is waiting: nothing had to be requested, or the registry is off and refused at once
			e.reg.setMode(false, "pass")
			ev["ev"], ev["r"], ev["want"] = "BlobCache", "hung", "ok"
			e.reg.mu.Lock()
			if e.reg.off {
				ev["want"] = "fail"
			}
			e.reg.mu.Unlock()
			if e.pfGate != nil {
				err, _ := e.pfGate.kv[1].(error)
				ev["r"] = c15Res(err)
			}
		}
	case "BlobCache":
		r := c15R(s)
		mode := c15Modes[r]
		if e.pfStall {
			e.reg.setMode(false, mode)
			e.reg.release(false, mode)
			e.pfStall = false
		} else if e.pfGate != nil && e.pfGate.name == "layer.prefetch.fetch" {
			e.reg.setMode(false, mode)
			close(e.pfGate.rel)
		} else {
			return nil, false
		}
		e.pfGate = e.nextGate("layer.prefetch.fetched", c15Long)
		e.reg.setMode(false, "pass")
		ev["r"], ev["want"] = "hung", r
		if e.pfGate != nil {
			err, _ := e.pfGate.kv[1].(error)
			ev["r"] = c15Res(err)
		}
	case "ReaderCache":
		r := c15R(s)
		if e.pfGate == nil || e.pfGate.name != "layer.prefetch.fetched" {
			return nil, false
		}
		if err, _ := e.pfGate.kv[1].(error); err != nil {
			return nil, false
		}
		e.reg.setMode(false, c15Modes[r])
		endFault := func() {}
		if r == "cachefail" {
			endFault = e.cacheFault()
			ev["cause"] = "cache"
			r = "fail" // what the step has to report
		}
		close(e.pfGate.rel)
		e.pfGate = e.nextGate("layer.prefetch.cached", 2*c15Long)
		endFault()
		e.reg.setMode(false, "pass")
		ev["r"], ev["want"] = "hung", r
		if e.pfGate != nil {
			err, _ := e.pfGate.kv[1].(error)
			ev["r"] = c15Res(err)
			if err != nil {
				ev["err"] = err.Error()
			}
		}
	case "PrefetchEnd":
		if e.pfGate == nil {
			return nil, false
		}
		switch e.pfGate.name {
		case "layer.prefetch.noprefetch", "layer.prefetch.cached":
		case "layer.prefetch.fetched":
			if err, _ := e.pfGate.kv[1].(error); err == nil {
				return nil, false
			}
		default:
			return nil, false
		}
		close(e.pfGate.rel)
		e.pfGate = nil
		ev["res"], ev["p"] = "hung", e.runner
		select {
		case err := <-e.pret[e.runner]:
			ev["res"] = c15Res(err)
			delete(e.pret, e.runner)
		case <-time.After(c15Long):
		}
		e.pfPrio = false
		e.bgResumed()
	case "PrefetchReturn":
		p := c15Int(s["p"])
		ch := e.pret[p]
		if ch == nil {
			return nil, false
		}
		ev["p"] = p
		select {
		case err := <-ch:
			ev["res"] = c15Res(err)
			delete(e.pret, p)
		case <-time.After(c15Long):
			ev["res"] = "hung"
		}
	case "WaitCall":
		w := c15Int(s["w"])
		ch := make(chan c15WaitRes, 1)
		e.wret[w] = ch
		go func() {
			t0 := time.Now()
			err := e.l.WaitForPrefetchCompletion()
			ch <- c15WaitRes{err, time.Since(t0).Milliseconds()}
		}()
		ev["w"] = w
	case "WaitReturn", "WaitTimeout":
		w := c15Int(s["w"])
		ch := e.wret[w]
		if ch == nil || e.wdone[w] {
			return nil, false
		}
		ev["w"] = w
		select {
		case r := <-ch:
			e.wdone[w] = true
			ev["ms"] = r.ms
			if r.err == nil {
				ev["ev"], ev["res"] = "WaitReturn", "ok"
			} else {
				ev["ev"], ev["res"] = "WaitTimeout", "timeout"
			}
		case <-time.After(e.tmo + 12*time.Second):
			e.wdone[w] = true
			ev["ev"], ev["res"], ev["ms"] = "WaitHung", "hung", (e.tmo + 12*time.Second).Milliseconds()
		}
	case "BgCall":
		b := c15Int(s["b"])
		ch := make(chan error, 1)
		e.bret[b] = ch
		go func() { ch <- e.l.BackgroundFetch() }()
		ev["b"] = b
		ev["won"] = false
		if e.brunner == 0 {
			if g := e.nextGate("layer.bgfetch.start", c15Long); g != nil {
				e.bgGate, e.brunner = g, b
				ev["won"] = true
			}
		}
	case "BgStall":
		if e.bgGate == nil || e.prio > 0 || e.pfPrio {
			return nil, false
		}
		close(e.bgGate.rel) // background requests are held from the start (bgmode)
		e.bgGate = nil
		e.bgSusp = true
		e.bgResumed()
		if !e.bgStall {
			return e.bgFinish(ev, "pass")
		}
	case "BgFinish":
		r := c15R(s)
		mode := c15Modes[r]
		if e.brunner == 0 || e.bret[e.brunner] == nil || e.prio > 0 || e.pfPrio {
			return nil, false
		}
		e.reg.setMode(true, mode)
		endFault := func() {}
		if r == "cachefail" {
			endFault = e.cacheFault()
			ev["cause"] = "cache"
		}
		if e.bgGate != nil {
			close(e.bgGate.rel)
			e.bgGate = nil
		}
		e.reg.release(true, mode)
		e.bgStall, e.bgSusp = false, false
		evs, ok := e.bgFinish(ev, mode)
		endFault()
		if r == "cachefail" {
			ev["want"] = "fail"
		}
		return evs, ok
	case "BgReturn":
		b := c15Int(s["b"])
		ch := e.bret[b]
		if ch == nil {
			return nil, false
		}
		ev["b"] = b
		select {
		case err := <-ch:
			ev["res"] = c15Res(err)
			delete(e.bret, b)
		case <-time.After(c15Long):
			ev["res"] = "hung"
		}
	case "PrioBegin":
		e.tm.DoPrioritizedTask()
		e.prio++
		e.bgSuspended()
	case "PrioEnd":
		if e.prio == 0 {
			return nil, false
		}
		e.prio--
		e.tm.DonePrioritizedTask()
		e.bgResumed()
	case "Read":
		f := c15Int(s["f"])
		// while the registry holds requests back a read of the driver could join a held fetch (singleflight): not executed
		if e.pfStall || e.bgStall || f < 1 || f > len(e.files) {
			return nil, false
		}
		ok, msg := e.read(f - 1)
		ev["f"], ev["ok"] = f, ok
		if !ok {
			ev["err"] = msg
		}
	case "ReadPart":
		f, k := c15Int(s["f"]), c15Int(s["k"])
		e.reg.mu.Lock()
		off := e.reg.off
		e.reg.mu.Unlock()
		if e.pfStall || e.bgStall || off || f < 1 || f > len(e.files) {
			return nil, false
		}
		ok, msg := e.readPart(f-1, k)
		ev["f"], ev["k"], ev["ok"] = f, k, ok
		if !ok {
			ev["err"] = msg
		}
	case "RegistryOff", "RegistryOn":
		e.reg.mu.Lock()
		e.reg.off = act == "RegistryOff"
		e.reg.mu.Unlock()
	default:
		return nil, false
	}
	e.pollWaiters(&evs)
	ev["req"] = e.reg.take(false)
	evs = append(evs, ev)
	return evs, true
}

func (e *c15Env) bgFinish(ev map[string]any, mode string) ([]map[string]any, bool) {
	ev["ev"], ev["r"], ev["b"] = "BgFinish", "hung", e.brunner
	ev["want"] = map[string]string{"pass": "ok", "fail": "fail"}[mode]
	select {
	case err := <-e.bret[e.brunner]:
		ev["r"] = c15Res(err)
		if err != nil {
			ev["err"] = err.Error()
		}
		delete(e.bret, e.brunner)
	case <-time.After(2 * c15Long):
	}
	e.reg.setMode(true, "hold")
	var evs []map[string]any
	e.pollWaiters(&evs)
	ev["req"] = e.reg.take(true) // everything background fetch asked for, including requests repeated after a suspension
	return append(evs, ev), true
}

// finish lets everything that is still running run to its end
func (e *c15Env) finish() {
	e.reg.mu.Lock()
	e.reg.off = false
	e.reg.mode, e.reg.bgmode = "pass", "pass"
	e.reg.mu.Unlock()
	e.reg.release(false, "pass")
	e.reg.release(true, "pass")
	for e.prio > 0 {
		e.prio--
		e.tm.DonePrioritizedTask()
	}
	c15Mu.Lock()
	delete(c15Layers, e.l) // later gate calls pass straight through
	c15Mu.Unlock()
	for _, g := range []*c15Gate{e.pfGate, e.bgGate} {
		if g != nil {
			close(g.rel)
		}
	}
	end := time.After(20 * time.Second)
	pending := func() bool { return len(e.pret)+len(e.bret) > 0 }
	for pending() {
		select {
		case g := <-e.gates:
			close(g.rel)
		case <-end:
			return
		case <-time.After(c15Tick):
		}
		for p, ch := range e.pret {
			select {
			case <-ch:
				delete(e.pret, p)
			default:
			}
		}
		for b, ch := range e.bret {
			select {
			case <-ch:
				delete(e.bret, b)
			default:
			}
		}
	}
	for {
		select {
		case g := <-e.gates:
			close(g.rel)
			continue
		default:
		}
		break
	}
}

func c15Replay(sc *c15Scen, b *c15Built, store metadata.Store, storeName string, walk []c15Step) ([]map[string]any, error) {
	e, err := c15Mount(sc, b, store, storeName, true)
	if err != nil {
		if e != nil {
			os.RemoveAll(e.root)
		}
		return []map[string]any{{"ev": "MountFailed", "id": sc.ID + "/" + storeName, "err": err.Error()}}, nil
	}
	defer e.close()
	scn, err := e.scenario(b, store)
	if err != nil {
		return nil, err
	}
	prev := e.obs()
	out := []map[string]any{{"ev": "Reset", "sc": scn, "obs": prev}}
	skipped := 0
	for _, s := range walk {
		evs, ok := e.step(s)
		if !ok {
			skipped++
			continue
		}
		o := e.obs()
		if o["wclosed"] == true && prev["wclosed"] == false {
			// the waiter closed during this step: every waiting call returns; time-outs not yet collected go first
			var more []map[string]any
			e.pollWaiters(&more)
			evs = append(more, evs...)
		}
		for _, ev := range evs {
			if ev["spont"] == true {
				// a timeout the driver did not ask for happened at some point during the step: it is placed before the
				// step (its own effect is the closed waiter only)
				po := map[string]any{}
				for k, v := range prev {
					po[k] = v
				}
				po["wclosed"] = true
				ev["obs"] = po
				prev = po
			} else {
				ev["obs"] = o
				prev = o
			}
			out = append(out, ev)
		}
	}
	out[0]["skipped"] = skipped
	// the walk is over: whatever prefetch still has to do happens now, unobserved step by step but not unrecorded
	inFlight := e.runner != 0 && e.pret[e.runner] != nil
	e.reg.take(false)
	e.finish()
	if inFlight {
		out = append(out, map[string]any{"ev": "Drain", "req": e.reg.take(false), "obs": e.obs()})
	}
	return out, nil
}

// ---------------------------------------------------------------------------------------------- free-running executions

// goroutines call Prefetch / WaitForPrefetchCompletion / BackgroundFetch / reads freely (as fs.Mount and fs.Check do);
// the events are the call results in the order the driver saw them return, followed by the reads the property speaks about.
func c15Free(sc *c15Scen, b *c15Built, store metadata.Store, storeName string, iter int) ([]map[string]any, error) {
	rng := rand.New(rand.NewSource(sc.Seed*7919 + int64(iter)))
	e, err := c15Mount(sc, b, store, storeName, false)
	if err != nil {
		return []map[string]any{{"ev": "MountFailed", "id": sc.ID + "/" + storeName, "err": err.Error()}}, nil
	}
	defer e.close()
	scn, err := e.scenario(b, store)
	if err != nil {
		return nil, err
	}
	fscn := map[string]any{}
	for k, v := range scn {
		fscn[k] = v
	}
	fscn["free"], fscn["np"], fscn["nw"], fscn["nb"] = true, 2, 2, 2
	scn = fscn
	rec := &c15Rec{}
	rec.add(map[string]any{"ev": "Reset", "sc": scn, "free": true, "iter": iter, "obs": e.obs()})
	track := &c15Track{e: e, rec: rec, last: "none", waits: map[int64]bool{}}
	c15Mu.Lock()
	c15Frees[e.l], c15FreeWs[e.l.prefetchWaiter] = track, track
	c15Mu.Unlock()
	defer func() {
		c15Mu.Lock()
		delete(c15Frees, e.l)
		delete(c15FreeWs, e.l.prefetchWaiter)
		c15Mu.Unlock()
	}()
	variant := iter % 3
	e.reg.mu.Lock()
	e.reg.delay = time.Duration(rng.Intn(3)) * 200 * time.Microsecond
	if variant == 2 {
		e.reg.failAt = 1 + rng.Intn(6) // one transient registry failure somewhere
	}
	e.reg.mu.Unlock()
	var wg sync.WaitGroup
	var pres, bres [2]error
	prefetch := func(i int) {
		defer wg.Done()
		pres[i] = e.l.Prefetch(sc.Cfg)
	}
	bgf := func(i int) {
		defer wg.Done()
		bres[i] = e.l.BackgroundFetch()
	}
	waitf := func(i int) {
		defer wg.Done()
		track.mu.Lock()
		track.waits[verifhook.Goid()] = true
		track.mu.Unlock()
		t0 := time.Now()
		err := e.l.WaitForPrefetchCompletion()
		ms := time.Since(t0).Milliseconds()
		if err == nil {
			rec.add(map[string]any{"ev": "WaitReturn", "w": i + 1, "res": "ok", "ms": ms, "req": []int{}, "obs": e.obs()})
		} else {
			rec.add(map[string]any{"ev": "WaitTimeout", "w": i + 1, "res": "timeout", "ms": ms, "req": []int{}, "obs": e.obs()})
		}
	}
	// phase 1: prefetch and waiters (variant 1: background fetch races with them, as in fs.prefetch)
	wg.Add(4)
	go prefetch(0)
	go waitf(0)
	go prefetch(1)
	go waitf(1)
	if variant == 1 {
		wg.Add(2)
		go bgf(0)
		go bgf(1)
	}
	wg.Wait()
	res := "ok"
	if pres[0] != nil || pres[1] != nil {
		res = "fail"
	}
	preq := e.reg.takeAll()
	if variant == 1 {
		preq = []int{} // background fetch ran at the same time: its requests cannot be told apart
	}
	want := "ok"
	if variant == 2 {
		want = "any"
	}
	rec.add(map[string]any{"ev": "PrefetchEnd", "p": 1, "res": res, "want": want, "req": preq, "obs": e.obs()})
	if variant != 1 {
		// the reads the first part of the property speaks about
		for _, pi := range scn["prio"].([]int) {
			ok, _ := e.read(pi - 1)
			rec.add(map[string]any{"ev": "Read", "f": pi, "ok": ok, "req": e.reg.takeAll(), "obs": e.obs()})
		}
		// on-demand reads of single chunks (the head or the middle of a file), as a container does before the
		// background fetch gets to the file
		for i, f := range e.files {
			if len(f.chunks) >= 3 && f.data != nil {
				k := 1 + (iter/3)%2
				ok, _ := e.readPart(i, k)
				rec.add(map[string]any{"ev": "ReadPart", "f": i + 1, "k": k, "ok": ok, "req": e.reg.takeAll(), "obs": e.obs()})
			}
		}
		time.Sleep(3 * c15Silence)
		// phase 2: background fetch, disturbed by prioritized tasks and reads
		wg.Add(2)
		go bgf(0)
		go bgf(1)
		stop := make(chan struct{})
		var ng sync.WaitGroup
		ng.Add(1)
		go func() {
			defer ng.Done()
			for k := 0; k < 3; k++ {
				select {
				case <-stop:
					return
				case <-time.After(time.Duration(rng.Intn(4)) * time.Millisecond):
				}
				e.tm.DoPrioritizedTask()
				time.Sleep(time.Millisecond)
				e.tm.DonePrioritizedTask()
			}
		}()
		wg.Wait()
		close(stop)
		ng.Wait()
	}
	bg := "ok"
	for _, err := range bres {
		if err != nil {
			bg = "fail"
		}
	}
	e.reg.takeAll()
	rec.add(map[string]any{"ev": "BgFinish", "b": 1, "r": bg, "want": want, "req": []int{}, "obs": e.obs()})
	e.reg.mu.Lock()
	e.reg.off = true
	e.reg.mu.Unlock()
	rec.add(map[string]any{"ev": "RegistryOff", "req": []int{}, "obs": e.obs()})
	for i := range e.files {
		ok, msg := e.read(i)
		ev := map[string]any{"ev": "Read", "f": i + 1, "ok": ok, "req": e.reg.takeAll(), "obs": e.obs()}
		if !ok {
			ev["err"] = msg
		}
		rec.add(ev)
	}
	return rec.evs, nil
}

// ---------------------------------------------------------------------------------------------- entry point

// VerifC15T is the part of testing.T the driver needs.
type VerifC15T interface {
	Fatalf(format string, args ...any)
	Logf(format string, args ...any)
	Skip(args ...any)
}

// VerifC15 runs the C15 driver with the given metadata store. Input: $VERIF_IN (JSON), output: ndjson files.
func VerifC15(t VerifC15T, store metadata.Store, storeName string) {
	in := os.Getenv("VERIF_IN")
	if in == "" {
		t.Skip("VERIF_IN not set")
		return
	}
	raw, err := os.ReadFile(in)
	if err != nil {
		t.Fatalf("input: %v", err)
	}
	var inp c15Input
	if err := json.Unmarshal(raw, &inp); err != nil {
		t.Fatalf("input: %v", err)
	}
	c15InstallGates()
	defer verifhook.SetGate(nil)
	c15InstallEvents()
	defer verifhook.SetEvent(nil)
	type job struct {
		sc   *c15Scen
		b    *c15Built
		walk []c15Step
		iter int
		idx  int
		free bool
	}
	var jobs []job
	for i := range inp.Scens {
		sc := &inp.Scens[i]
		b, err := c15Build(sc)
		if err != nil {
			t.Fatalf("building layer %s: %v", sc.ID, err)
		}
		switch inp.Mode {
		case "layout":
			jobs = append(jobs, job{sc: sc, b: b, idx: len(jobs)})
		case "replay":
			for _, w := range sc.Walks {
				jobs = append(jobs, job{sc: sc, b: b, walk: w, idx: len(jobs)})
			}
			for k := 0; k < sc.Free; k++ {
				jobs = append(jobs, job{sc: sc, b: b, iter: k, idx: len(jobs), free: true})
			}
		}
	}
	results := make([][]map[string]any, len(jobs))
	errs := make([]error, len(jobs))
	par := inp.Par
	if par <= 0 {
		par = 4
	}
	sem := make(chan struct{}, par)
	var wg sync.WaitGroup
	for _, j := range jobs {
		wg.Add(1)
		sem <- struct{}{}
		go func(j job) {
			defer wg.Done()
			defer func() { <-sem }()
			switch inp.Mode {
			case "layout":
				e, err := c15Mount(j.sc, j.b, store, storeName, false)
				if err != nil {
					results[j.idx] = []map[string]any{{"ev": "MountFailed", "id": j.sc.ID + "/" + storeName, "err": err.Error()}}
					return
				}
				scn, err := e.scenario(j.b, store)
				e.close()
				if err != nil {
					errs[j.idx] = err
					return
				}
				results[j.idx] = []map[string]any{{"ev": "Layout", "sc": scn}}
			case "replay":
				if j.free {
					results[j.idx], errs[j.idx] = c15Free(j.sc, j.b, store, storeName, j.iter)
				} else {
					results[j.idx], errs[j.idx] = c15Replay(j.sc, j.b, store, storeName, j.walk)
				}
			}
		}(j)
	}
	wg.Wait()
	f, err := os.Create(inp.Out + "." + storeName)
	if err != nil {
		t.Fatalf("output: %v", err)
	}
	defer f.Close()
	ff, err := os.Create(inp.Out + ".free." + storeName)
	if err != nil {
		t.Fatalf("output: %v", err)
	}
	defer ff.Close()
	enc, fenc := json.NewEncoder(f), json.NewEncoder(ff)
	for i, r := range results {
		if errs[i] != nil {
			t.Fatalf("job %d (%s): %v", i, jobs[i].sc.ID, errs[i])
		}
		for _, ev := range r {
			en := enc
			if jobs[i].free {
				en = fenc
			}
			if err := en.Encode(ev); err != nil {
				t.Fatalf("output: %v", err)
			}
		}
	}
	t.Logf("c15 %s %s: %d jobs", inp.Mode, storeName, len(jobs))
}

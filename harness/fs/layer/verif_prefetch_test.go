//go:build verif

package layer

import (
	"testing"

	memorymetadata "github.com/containerd/stargz-snapshotter/metadata/memory"
)

// TestVerifC15 runs the C15 driver (verif_prefetch.go) against the in-memory metadata store.
func TestVerifC15(t *testing.T) {
	VerifC15(t, memorymetadata.NewReader, "memory")
}

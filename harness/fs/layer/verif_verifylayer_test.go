//go:build verif

package layer

// Layer-level driver for Verify.tla (property C01): histories of Verify / SkipVerify calls reaching ONE layer object
// (what fs.Mount does with a layer it finds in the resolver's cache), reads through the reader the layer hands to its
// nodes, alterations of the blob source in between. Executes and projects only; TLC decides.

import (
	"encoding/json"
	"fmt"
	"io"
	"math/rand"
	"os"
	"sync"
	"testing"
	"time"

	"github.com/containerd/stargz-snapshotter/cache"
	"github.com/containerd/stargz-snapshotter/fs/reader"
	memorymetadata "github.com/containerd/stargz-snapshotter/metadata/memory"
	"github.com/containerd/stargz-snapshotter/task"
	ocispec "github.com/opencontainers/image-spec/specs-go/v1"
)

type c01Step struct {
	Act string `json:"act"`
	R   int    `json:"r"`
	C   int    `json:"c"`
	K   string `json:"k"`
	D   string `json:"d"`
}

type c01Job struct {
	Name  string      `json:"name"`
	Out   string      `json:"out"`
	Inits []string    `json:"tocs"`
	Walks [][]c01Step `json:"walks"`
}

func TestVerifC01Layer(t *testing.T) {
	in := os.Getenv("VERIF_IN")
	if in == "" {
		t.Skip("VERIF_IN not set")
	}
	var jobs []c01Job
	b, err := os.ReadFile(in)
	if err != nil {
		t.Fatal(err)
	}
	if err := json.Unmarshal(b, &jobs); err != nil {
		t.Fatal(err)
	}
	seed := int64(1)
	fmt.Sscan(os.Getenv("VERIF_SEED"), &seed)
	fx, err := reader.C01NewFixture()
	if err != nil {
		t.Fatal(err)
	}
	tm := task.NewBackgroundTaskManager(10, 5*time.Second)
	for _, j := range jobs {
		outs := make([][]map[string]any, len(j.Walks))
		var wg sync.WaitGroup
		sem := make(chan struct{}, 8)
		for i := range j.Walks {
			wg.Add(1)
			sem <- struct{}{}
			go func(i int) {
				defer wg.Done()
				defer func() { <-sem }()
				outs[i] = c01LayerWalk(t, fx, tm, j, i, rand.New(rand.NewSource(seed*1000003+int64(i))))
			}(i)
		}
		wg.Wait()
		f, err := os.Create(j.Out)
		if err != nil {
			t.Fatal(err)
		}
		enc := json.NewEncoder(f)
		for _, o := range outs {
			for _, e := range o {
				enc.Encode(e)
			}
		}
		f.Close()
	}
}

func c01LayerWalk(t *testing.T, fx *reader.C01Fixture, tm *task.BackgroundTaskManager, j c01Job, wi int, rng *rand.Rand) (out []map[string]any) {
	walk := j.Walks[wi]
	var alters [][2]any
	for _, s := range walk {
		if s.Act == "Alter" && s.K != "g" {
			alters = append(alters, [2]any{s.C, s.K})
		}
	}
	env, desc, err := fx.Open(j.Inits[wi], alters, memorymetadata.NewReader, cache.NewMemoryCache(), wi, rng)
	if err != nil {
		t.Errorf("walk %d: open: %v", wi, err)
		return nil
	}
	defer env.Close()
	// the layer object as layer.Resolver.Resolve builds it
	l := newLayer(
		&Resolver{prefetchTimeout: time.Second, backgroundTaskManager: tm},
		ocispec.Descriptor{Digest: testStateLayerDigest},
		&blobRef{newBlob(t, io.NewSectionReader(env.Source(), 0, env.Size())), func(bool) {}},
		env.VR(),
		passThroughConfig{},
		false,
	)
	emit := func(e map[string]any) { out = append(out, env.Obs(e)) }
	out = append(out, map[string]any{"ev": "Reset", "toc": j.Inits[wi], "cfg": "layer " + desc})
	for _, s := range walk {
		switch s.Act {
		case "Alter":
			how := env.Alter(s.C, s.K)
			emit(map[string]any{"ev": "Alter", "c": s.C, "k": s.K, "how": how})
		case "LayerVerify":
			err := l.Verify(env.Digest(s.D))
			res := "ok"
			if err != nil {
				res = "err"
			}
			if err == nil {
				// a mount goes on with RootNode: it must have a reader
				if _, rerr := l.RootNode(0); rerr != nil {
					res = "err"
					err = rerr
				}
			}
			emit(map[string]any{"ev": "LayerVerify", "d": s.D, "res": res, "err": fmt.Sprint(err)})
		case "LayerSkip":
			l.SkipVerify()
			emit(map[string]any{"ev": "LayerSkip"})
		case "Read":
			if l.r == nil {
				return // diverged: TLC rejects at the step that should have set the reader
			}
			res, v := env.ReadChunk(l.r, s.C)
			emit(map[string]any{"ev": "Read", "r": s.R, "c": s.C, "res": res, "v": v, "probe": env.Probe(s.C)})
		default:
			t.Errorf("unknown action %q", s.Act)
			return
		}
	}
	return out
}

//go:build verif

package layer

import (
	"testing"

	memorymetadata "github.com/containerd/stargz-snapshotter/metadata/memory"
)

// TestVerifC02 runs the C02 driver (verif_readpath.go) against the in-memory metadata store.
func TestVerifC02(t *testing.T) {
	VerifC02(t, memorymetadata.NewReader, "memory")
}

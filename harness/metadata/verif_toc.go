//go:build verif

package metadata

// C05 / C04 driver body (Toc.tla). Overlaid into package metadata; used by the thin drivers in metadata/memory
// (memory store) and cmd/containerd-stargz-grpc/db (bolt store) the way metadata/testutil shares its suite.
//
// The driver decides nothing. For every TOC TLC generated it
//   - materialises the logical TOC as a real eStargz blob (payload gzip streams generated to match the chunk
//     layout, TOC JSON marshalled from estargz.JTOC, tar+gzip TOC member, 51-byte footer),
//   - opens it with the store under test,
//   - walks the complete metadata.Reader API (RootID, TOCDigest, GetAttr, GetChild, ForeachChild, GetOffset,
//     OpenFile -> ChunkEntryForOffset for every offset + ReadAt, OpenFileWithPreReader, Clone, Close),
//   - records everything it saw, projected to the model's values (byte offsets -> stream index, digests -> labels,
//     node ids -> sets of paths), as one ndjson line per case.
// TLC compares each line with the reference semantics (TocTrace) and the two stores with each other (TocMonitor).

import (
	"archive/tar"
	"bufio"
	"bytes"
	"compress/gzip"
	"encoding/base64"
	"crypto/sha256"
	"encoding/binary"
	"encoding/json"
	"fmt"
	"io"
	"os"
	"os/exec"
	"runtime/debug"
	"sort"
	"strconv"
	"strings"
	"sync"
	"syscall"
	"time"

	"github.com/containerd/stargz-snapshotter/estargz"
	"github.com/containerd/stargz-snapshotter/estargz/zstdchunked"
)

type C05Ent struct {
	P   string `json:"p"`
	T   string `json:"t"`
	Tgt string `json:"tgt"`
	Sp  string `json:"sp"`
	Sz  int    `json:"sz"`
	Lay string `json:"lay"`
	Dg  string `json:"dg"`
	At  string `json:"at"`
}

type C05Case struct {
	ID   int      `json:"id"`
	Ws   int      `json:"ws"`
	Ents []C05Ent `json:"ents"`
}

// C05Blob is a concretised case: the bytes plus the tables needed to project observations back.
type C05Blob struct {
	Bytes      []byte
	StreamOf   map[int64]int     // byte offset of a payload stream -> stream index (1-based)
	DigestName map[string]string // digest string -> label
	TocJ, TocT string            // digest of the TOC JSON file with / without the trailing white space
}

func c05Spell(p, sp string, isDir bool) string {
	if p == "/" {
		switch sp {
		case "slash":
			return "/"
		case "dot":
			return "."
		}
		return "./"
	}
	rel := strings.TrimPrefix(p, "/")
	dir, base := "", rel
	if i := strings.LastIndex(rel, "/"); i >= 0 {
		dir, base = rel[:i], rel[i+1:]
	}
	switch sp {
	case "tdot": // trailing dot element
		return rel + "/."
	case "tdotdot": // trailing dot-dot element
		return rel + "/zz/.."
	case "idot": // inner dot element (paths of two or more elements)
		return dir + "/./" + base
	case "dslash":
		return dir + "//" + base
	case "updown":
		return rel + "/../" + base
	case "dot":
		return "./" + rel
	case "dotdot":
		return "../" + rel
	case "slash":
		return rel + "/"
	}
	return rel
}

func c05ByteOf(i, j int) byte { return byte(97 + (i-1)*4 + j%23) }

// c05Probes lists the offsets at which a file is probed (same rule as ProbeSeq in Toc.tla).
func c05Probes(sz int64) []int64 {
	var res []int64
	if sz <= 64 {
		for o := int64(0); o <= sz; o++ {
			res = append(res, o)
		}
		return res
	}
	step := sz / 20
	for k := int64(0); k <= 20; k++ {
		hi := k*step + step - 1
		if hi > sz {
			hi = sz
		}
		res = append(res, k*step, hi)
	}
	return append(res, sz)
}

func c05Many(lay string) (chunkLen, count int) {
	switch lay {
	case "m3":
		return 40, 3
	case "m10":
		return 40, 10
	case "m12":
		return 40, 12
	case "m9k":
		return 2100, 9
	}
	return 0, 0
}

func c05Digest(b []byte) string { return fmt.Sprintf("sha256:%x", sha256.Sum256(b)) }

func c05Gzip(b []byte) []byte {
	var buf bytes.Buffer
	zw, _ := gzip.NewWriterLevel(&buf, gzip.BestSpeed)
	zw.Write(b)
	zw.Close()
	return buf.Bytes()
}

// C05Footer returns the 51-byte eStargz footer for a TOC offset.
func C05Footer(tocOff int64) []byte {
	sub := fmt.Sprintf("%016xSTARGZ", tocOff)
	extra := []byte{'S', 'G', 0, 0}
	binary.LittleEndian.PutUint16(extra[2:4], uint16(len(sub)))
	return estargz.CreateGzipFooter(append(extra, sub...))
}

// C05TocMember wraps TOC JSON bytes (plus ws bytes of white space) into the tar+gzip TOC member.
func C05TocMember(js []byte, ws int) []byte {
	content := append(append([]byte{}, js...), bytes.Repeat([]byte{' '}, ws)...)
	var tb bytes.Buffer
	tw := tar.NewWriter(&tb)
	tw.WriteHeader(&tar.Header{Typeflag: tar.TypeReg, Name: estargz.TOCTarName, Size: int64(len(content))})
	tw.Write(content)
	tw.Close()
	return c05Gzip(tb.Bytes())
}

// C05Build concretises a logical TOC (same layout rules as Toc.tla: LayAfter / ChunksOf).
func C05Build(c C05Case) *C05Blob {
	res := &C05Blob{StreamOf: map[int64]int{}, DigestName: map[string]string{}}
	type chunk struct {
		ent    *estargz.TOCEntry
		stream int
	}
	var streams [][]byte // uncompressed contents, index 0 = stream 1
	var chunks []chunk
	entries := []*estargz.TOCEntry{}
	for idx, e := range c.Ents {
		i := idx + 1
		te := &estargz.TOCEntry{Name: c05Spell(e.P, e.Sp, e.T == "dir"), Type: e.T}
		switch e.At {
		case "f":
			te.Mode, te.UID, te.GID = 0o4755, 1000, 1001
			te.ModTime3339 = "2020-01-02T03:04:05Z"
			te.Xattrs = map[string][]byte{"k1": []byte("v1")}
		case "e":
			te.Mode, te.UID = 0o600, 1
			te.Xattrs = map[string][]byte{"k1": {}, "k2": {}}
		default: // "t...": nothing but a modification time (extremes; see MTimeOf in Toc.tla)
			te.ModTime3339 = map[string]string{
				"t1600": "1600-01-01T00:00:00Z", "t1677": "1677-09-21T00:00:00Z", "t2263": "2263-01-01T00:00:00Z",
				"t2500": "2500-06-15T12:00:00Z", "t2999": "2999-12-31T23:59:59Z", "tz9": "2020-01-02T12:04:05+09:00",
				"tsub": "2020-01-02T03:04:05.123456789Z", "t0001": "0001-01-01T00:00:00Z"}[e.At]
		}
		switch e.T {
		case "symlink":
			te.LinkName = "../x"
		case "hardlink":
			te.LinkName = c05Spell(e.Tgt, e.Sp, false)
		case "char", "block":
			te.DevMajor, te.DevMinor = 1, 2
		}
		entries = append(entries, te)
		if e.T != "reg" {
			continue
		}
		te.Size = int64(e.Sz)
		data := make([]byte, e.Sz)
		for j := range data {
			data[j] = c05ByteOf(i, j)
		}
		fileDg := c05Digest(data)
		if e.Dg == "both" || e.Dg == "file" {
			te.Digest = fileDg
		}
		if e.Sz == 0 {
			continue
		}
		res.DigestName[fileDg] = fmt.Sprintf("D%d", i)
		h := e.Sz / 2
		setCD := func(t *estargz.TOCEntry, b []byte, label string) {
			d := c05Digest(b)
			if _, ok := res.DigestName[d]; !ok {
				res.DigestName[d] = label
			}
			if e.Dg == "both" || e.Dg == "chunk" {
				t.ChunkDigest = d
			}
		}
		switch e.Lay {
		case "one":
			streams = append(streams, data)
			setCD(te, data, fmt.Sprintf("D%d", i))
			chunks = append(chunks, chunk{te, len(streams)})
		case "two", "twoz", "inner":
			te.ChunkSize = int64(h)
			ce := &estargz.TOCEntry{Name: te.Name, Type: "chunk", ChunkOffset: int64(h)}
			if e.Lay != "twoz" {
				ce.ChunkSize = int64(e.Sz - h)
			}
			setCD(te, data[:h], fmt.Sprintf("C%d.1", i))
			setCD(ce, data[h:], fmt.Sprintf("C%d.2", i))
			if e.Lay == "inner" {
				streams = append(streams, data)
				ce.InnerOffset = int64(h)
				chunks = append(chunks, chunk{te, len(streams)}, chunk{ce, len(streams)})
			} else {
				streams = append(streams, data[:h], data[h:])
				chunks = append(chunks, chunk{te, len(streams) - 1}, chunk{ce, len(streams)})
			}
			entries = append(entries, ce)
		case "m3", "m10", "m12", "m9k": // many chunks, each in its own stream
			cl, cnt := c05Many(e.Lay)
			te.ChunkSize = int64(cl)
			setCD(te, data[:cl], fmt.Sprintf("C%d.1", i))
			streams = append(streams, data[:cl])
			chunks = append(chunks, chunk{te, len(streams)})
			for k := 1; k < cnt; k++ {
				ce := &estargz.TOCEntry{Name: te.Name, Type: "chunk", ChunkOffset: int64(k * cl), ChunkSize: int64(cl)}
				setCD(ce, data[k*cl:(k+1)*cl], fmt.Sprintf("C%d.%d", i, k+1))
				streams = append(streams, data[k*cl:(k+1)*cl])
				chunks = append(chunks, chunk{ce, len(streams)})
				entries = append(entries, ce)
			}
		default: // share: appended to the last stream
			n := len(streams)
			te.InnerOffset = int64(len(streams[n-1]))
			streams[n-1] = append(append([]byte{}, streams[n-1]...), data...)
			setCD(te, data, fmt.Sprintf("D%d", i))
			chunks = append(chunks, chunk{te, n})
		}
	}
	var blob bytes.Buffer
	blob.Write(c05Gzip([]byte("tar headers live here"))) // offset 0 is never a payload stream in a real blob
	offs := make([]int64, len(streams)+1)
	for s, data := range streams {
		offs[s+1] = int64(blob.Len())
		res.StreamOf[offs[s+1]] = s + 1
		blob.Write(c05Gzip(data))
	}
	for _, ch := range chunks {
		ch.ent.Offset = offs[ch.stream]
	}
	js, _ := json.Marshal(&estargz.JTOC{Version: 1, Entries: entries})
	res.TocT = c05Digest(js)
	res.TocJ = c05Digest(append(append([]byte{}, js...), bytes.Repeat([]byte{' '}, c.Ws)...))
	tocOff := int64(blob.Len())
	blob.Write(C05TocMember(js, c.Ws))
	blob.Write(C05Footer(tocOff))
	res.Bytes = blob.Bytes()
	return res
}

type c05Node struct {
	Ty    string     `json:"ty"`
	Perm  int        `json:"perm"`
	Sb    int        `json:"sb"`
	Size  int64      `json:"size"`
	UID   int        `json:"uid"`
	GID   int        `json:"gid"`
	NLink int        `json:"nlink"`
	Link  string     `json:"link"`
	Maj   int        `json:"maj"`
	Min   int        `json:"min"`
	Mt    string     `json:"mt"`
	Xa    [][]string `json:"xa"`
	Same  []string   `json:"same"`
	Kids  []string   `json:"kids"`
	Fty   string     `json:"fty"`
	Gc    string     `json:"gc"`
	Of    string     `json:"of"`
	Off   int        `json:"off"`
	Ck    []c05Ck    `json:"ck"`
	Rd    []int      `json:"rd"`
	All   []int      `json:"all"`
	Prd   []int      `json:"prd"`
	Pcb   []c05Cb    `json:"pcb"`
	Err   string     `json:"err"`

	id uint32
}

type c05Ck struct {
	Ok bool   `json:"ok"`
	Co int64  `json:"co"`
	Cs int64  `json:"cs"`
	Dg string `json:"dg"`
}

type c05Cb struct {
	Same []string `json:"same"`
	Co   int64    `json:"co"`
	Cs   int64    `json:"cs"`
	Dg   string   `json:"dg"`
	Data []int    `json:"data"`

	id uint32
}

type C05Obs struct {
	Open   string              `json:"open"`
	Err    string              `json:"err"`
	Digest string              `json:"digest"`
	Nodes  map[string]*c05Node `json:"nodes,omitempty"`
	Clone  string              `json:"clone"`
	Close  string              `json:"close"`
}

func c05TypeOf(m os.FileMode) string {
	switch {
	case m.IsDir():
		return "dir"
	case m&os.ModeSymlink != 0:
		return "symlink"
	case m&os.ModeCharDevice != 0:
		return "char"
	case m&os.ModeDevice != 0:
		return "block"
	case m&os.ModeNamedPipe != 0:
		return "fifo"
	case m.IsRegular():
		return "reg"
	}
	return "?"
}

func c05AttrInto(n *c05Node, a Attr) {
	n.Ty = c05TypeOf(a.Mode)
	n.Perm = int(a.Mode & os.ModePerm)
	if a.Mode&os.ModeSetuid != 0 {
		n.Sb |= 4
	}
	if a.Mode&os.ModeSetgid != 0 {
		n.Sb |= 2
	}
	if a.Mode&os.ModeSticky != 0 {
		n.Sb |= 1
	}
	n.Size, n.UID, n.GID, n.NLink, n.Link, n.Maj, n.Min = a.Size, a.UID, a.GID, a.NumLink, a.LinkName, a.DevMajor, a.DevMinor
	if n.NLink == 0 {
		n.NLink = 1 // documented convention (estargz.TOCEntry.NumLink, fs/layer/node.go): zero means one name
	}
	if !a.ModTime.IsZero() {
		n.Mt = a.ModTime.UTC().Format(time.RFC3339Nano)
	}
	n.Xa = [][]string{}
	for k, v := range a.Xattrs {
		n.Xa = append(n.Xa, []string{k, string(v)})
	}
	sort.Slice(n.Xa, func(i, j int) bool { return n.Xa[i][0] < n.Xa[j][0] })
}

func c05AttrKey(a Attr) string {
	var n c05Node
	c05AttrInto(&n, a)
	b, _ := json.Marshal(&n)
	return string(b)
}

func c05Label(b *C05Blob, d string) string {
	if d == "" {
		return ""
	}
	if l, ok := b.DigestName[d]; ok {
		return l
	}
	return "?" + d
}

func c05Ints(b []byte) []int {
	r := make([]int, len(b))
	for i, x := range b {
		r[i] = int(x)
	}
	return r
}

const c05MaxDepth = 4

// C05Walk records everything the reader shows (bounded depth so that a cyclic tree still yields a finite record).
func C05Walk(r Reader, b *C05Blob) (obs *C05Obs) {
	obs = &C05Obs{Open: "ok", Nodes: map[string]*c05Node{}}
	switch d := r.TOCDigest().String(); d {
	case b.TocJ:
		obs.Digest = "J"
	case b.TocT:
		obs.Digest = "T"
	default:
		obs.Digest = "?"
	}
	type item struct {
		path  string
		id    uint32
		depth int
		fmode os.FileMode
		gc    string
	}
	root := r.RootID()
	queue := []item{{"/", root, 0, os.ModeDir, "same"}}
	byID := map[uint32][]string{}
	first := true
	for len(queue) > 0 {
		it := queue[0]
		queue = queue[1:]
		n := &c05Node{id: it.id, Gc: it.gc, Kids: []string{}, Ck: []c05Ck{}, Rd: []int{}, All: []int{}, Prd: []int{}, Pcb: []c05Cb{}, Xa: [][]string{}}
		obs.Nodes[it.path] = n
		byID[it.id] = append(byID[it.id], it.path)
		type kid struct {
			name string
			id   uint32
			mode os.FileMode
		}
		var kids []kid
		// ForeachChild first: the bolt store parses the TOC in the background and answers GetAttr(root) from a
		// provisional root until a call that waits for the parser has returned (not recorded: timing dependent).
		err := r.ForeachChild(it.id, func(name string, id uint32, mode os.FileMode) bool {
			kids = append(kids, kid{name, id, mode})
			return true
		})
		if first && err != nil {
			// a TOC the background parser rejects shows up at the first call that waits
			return &C05Obs{Open: "err", Err: err.Error()}
		}
		first = false
		if err != nil {
			n.Err = "ForeachChild: " + err.Error()
		}
		attr, err := r.GetAttr(it.id)
		if err != nil {
			n.Err = "GetAttr: " + err.Error()
			continue
		}
		c05AttrInto(n, attr)
		n.Fty = c05TypeOf(it.fmode)
		sort.Slice(kids, func(i, j int) bool { return kids[i].name < kids[j].name })
		for _, k := range kids {
			n.Kids = append(n.Kids, k.name)
			gc := "same"
			cid, cattr, err := r.GetChild(it.id, k.name)
			if err != nil {
				gc = "error"
			} else if cid != k.id {
				gc = "id-differs"
			} else if ga, err := r.GetAttr(k.id); err != nil || c05AttrKey(ga) != c05AttrKey(cattr) {
				gc = "attr-differs"
			}
			if it.depth+1 <= c05MaxDepth {
				p := it.path + "/" + k.name
				if it.path == "/" {
					p = "/" + k.name
				}
				queue = append(queue, item{p, k.id, it.depth + 1, k.mode, gc})
			}
		}
		if off, err := r.GetOffset(it.id); err != nil {
			n.Off = -2
		} else if off == 0 {
			n.Off = 0
		} else if s, ok := b.StreamOf[off]; ok {
			n.Off = s
		} else {
			n.Off = -1
		}
		f, err := r.OpenFile(it.id)
		if err != nil {
			n.Of = "err"
			continue
		}
		n.Of = "ok"
		if n.Ty != "reg" || attr.Size > 1<<20 || attr.Size < 0 {
			continue
		}
		probes := c05Probes(attr.Size)
		for _, o := range probes {
			co, cs, dg, ok := f.ChunkEntryForOffset(o)
			if !ok {
				n.Ck = append(n.Ck, c05Ck{})
			} else {
				n.Ck = append(n.Ck, c05Ck{true, co, cs, c05Label(b, dg)})
			}
		}
		one := make([]byte, 1)
		for _, o := range probes {
			if o >= attr.Size {
				n.Rd = append(n.Rd, -2)
			} else if nn, err := f.ReadAt(one, o); err != nil || nn != 1 {
				n.Rd = append(n.Rd, -1)
			} else {
				n.Rd = append(n.Rd, int(one[0]))
			}
		}
		if attr.Size > 0 {
			all := make([]byte, attr.Size)
			if nn, err := f.ReadAt(all, 0); err != nil || int64(nn) != attr.Size {
				n.All = []int{-1}
			} else {
				n.All = c05Ints(all)
			}
		}
		seen := map[string]bool{}
		pf, err := r.OpenFileWithPreReader(it.id, func(id uint32, co, cs int64, dg string, cr io.Reader) error {
			data, _ := io.ReadAll(cr)
			cb := c05Cb{id: id, Co: co, Cs: cs, Dg: c05Label(b, dg), Data: c05Ints(data)}
			key := fmt.Sprint(id, co, cs, dg, data)
			if !seen[key] {
				seen[key] = true
				n.Pcb = append(n.Pcb, cb)
			}
			return nil
		})
		if err != nil {
			n.Prd = []int{-2}
			continue
		}
		for _, o := range probes {
			if o >= attr.Size {
				n.Prd = append(n.Prd, -2)
			} else if nn, err := pf.ReadAt(one, o); err != nil || nn != 1 {
				n.Prd = append(n.Prd, -1)
			} else {
				n.Prd = append(n.Prd, int(one[0]))
			}
		}
	}
	for _, ps := range byID {
		sort.Strings(ps)
	}
	for _, n := range obs.Nodes {
		n.Same = byID[n.id]
		for i := range n.Pcb {
			if ps, ok := byID[n.Pcb[i].id]; ok {
				n.Pcb[i].Same = ps
			} else {
				n.Pcb[i].Same = []string{fmt.Sprintf("?%d", n.Pcb[i].id)}
			}
		}
		sort.Slice(n.Pcb, func(i, j int) bool {
			a, b := n.Pcb[i], n.Pcb[j]
			if a.Same[0] != b.Same[0] {
				return a.Same[0] < b.Same[0]
			}
			return a.Co < b.Co
		})
	}
	return obs
}

// C05Observe opens one concretised case with the store and records the walk, a clone's walk and Close.
func C05Observe(store Store, b *C05Blob) *C05Obs {
	sr := io.NewSectionReader(bytes.NewReader(b.Bytes), 0, int64(len(b.Bytes)))
	r, err := store(sr)
	if err != nil {
		return &C05Obs{Open: "err", Err: err.Error()}
	}
	obs := C05Walk(r, b)
	if obs.Open == "ok" {
		r2, err := r.Clone(io.NewSectionReader(bytes.NewReader(b.Bytes), 0, int64(len(b.Bytes))))
		if err != nil {
			obs.Clone = "err"
		} else {
			o2 := C05Walk(r2, b)
			j1, _ := json.Marshal(obs.Nodes)
			j2, _ := json.Marshal(o2.Nodes)
			if o2.Open == "ok" && bytes.Equal(j1, j2) && o2.Digest == obs.Digest {
				obs.Clone = "same"
			} else if o2.Open == "ok" && bytes.Equal(j1, j2) {
				obs.Clone = "digest-differs"
			} else {
				obs.Clone = "differs"
			}
		}
	}
	if err := r.Close(); err != nil {
		obs.Close = "err"
	} else {
		obs.Close = "ok"
	}
	return obs
}

// C05Run is the driver: cases from $VERIF_IN, one observation line per case to $VERIF_OUT_<store>.ndjson.
// newStore(worker) gives each worker its own store (the bolt store: its own database file).
func C05Run(storeName string, workers int, newStore func(worker int) (Store, func(), error)) error {
	raw, err := os.ReadFile(os.Getenv("VERIF_IN"))
	if err != nil {
		return err
	}
	var cases []C05Case
	if err := json.Unmarshal(raw, &cases); err != nil {
		return err
	}
	out := make([][]byte, len(cases))
	var wg sync.WaitGroup
	errs := make([]error, workers)
	for w := 0; w < workers; w++ {
		wg.Add(1)
		go func(w int) {
			defer wg.Done()
			store, done, err := newStore(w)
			if err != nil {
				errs[w] = err
				return
			}
			defer done()
			for i := w; i < len(cases); i += workers {
				b := C05Build(cases[i])
				obs := C05Observe(store, b)
				line, err := json.Marshal(map[string]any{"case": cases[i].ID, "store": storeName, "obs": obs})
				if err != nil {
					errs[w] = err
					return
				}
				out[i] = line
			}
		}(w)
	}
	wg.Wait()
	for _, e := range errs {
		if e != nil {
			return e
		}
	}
	f, err := os.Create(os.Getenv("VERIF_OUT") + "_" + storeName + ".ndjson")
	if err != nil {
		return err
	}
	bw := bufio.NewWriter(f)
	for _, l := range out {
		bw.Write(l)
		bw.WriteByte('\n')
	}
	if err := bw.Flush(); err != nil {
		return err
	}
	return f.Close()
}

// ============================================================================================== C04
// Hostile blobs (TocHostile.tla, Footer.tla), concretised by the estargz module's driver
// (harness/estargz/verif_hostile_test.go) into $VERIF_BLOBS; here they are driven through a metadata store in
// CHILD PROCESSES (same protocol as in the estargz driver: a child announces case and entry point before it runs
// them; the parent attributes a dead or silent child to the case in flight and starts a new child behind it).

type C04Blob struct {
	Case   int      `json:"case"`
	Blob   string   `json:"blob"`
	TocOpt int64    `json:"tocopt"`
	Names  []string `json:"names"`
	Zstd   bool     `json:"zstd"`
}

type c04Rec struct {
	Case int    `json:"case"`
	Ep   string `json:"ep"`
	Out  string `json:"out"`
	Msg  string `json:"msg"`
}

func c04LoadBlobs() ([]C04Blob, error) {
	f, err := os.Open(os.Getenv("VERIF_BLOBS"))
	if err != nil {
		return nil, err
	}
	defer f.Close()
	var res []C04Blob
	sc := bufio.NewScanner(f)
	sc.Buffer(make([]byte, 1<<20), 64<<20)
	for sc.Scan() {
		var b C04Blob
		if err := json.Unmarshal(sc.Bytes(), &b); err != nil {
			return nil, err
		}
		res = append(res, b)
	}
	return res, sc.Err()
}

// C04Recorder runs one entry point with panic recovery and records its outcome.
type C04Recorder struct {
	progress, out *os.File
	id            int
}

func (c *C04Recorder) Run(ep string, f func() error) {
	fmt.Fprintf(c.progress, "P %d %s\n", c.id, ep)
	rec := c04Rec{Case: c.id, Ep: ep, Out: "ok"}
	func() {
		defer func() {
			if r := recover(); r != nil {
				rec.Out, rec.Msg = "panic", fmt.Sprint(r)
			}
		}()
		if err := f(); err != nil {
			rec.Out, rec.Msg = "error", err.Error()
			if len(rec.Msg) > 160 {
				rec.Msg = rec.Msg[:160]
			}
		}
	}()
	b, _ := json.Marshal(rec)
	c.out.Write(append(b, '\n'))
}

// c04Walk touches everything a mounted layer touches, with bounds of its own (depth 6, 400 nodes) so that a cyclic
// tree yields a finite walk; sizes and offsets come from the hostile TOC, so reads are probed at a few offsets only.
func c04Walk(r Reader) error {
	type item struct {
		id    uint32
		depth int
	}
	queue := []item{{r.RootID(), 0}}
	n := 0
	var firstErr error
	note := func(err error) {
		if err != nil && firstErr == nil {
			firstErr = err
		}
	}
	for len(queue) > 0 && n < 400 {
		it := queue[0]
		queue = queue[1:]
		n++
		attr, err := r.GetAttr(it.id)
		note(err)
		_, err = r.GetOffset(it.id)
		note(err)
		note(r.ForeachChild(it.id, func(name string, id uint32, mode os.FileMode) bool {
			_, _, err := r.GetChild(it.id, name)
			note(err)
			if it.depth < 6 {
				queue = append(queue, item{id, it.depth + 1})
			}
			return true
		}))
		for _, pre := range []bool{false, true} {
			var f File
			if pre {
				f, err = r.OpenFileWithPreReader(it.id, func(id uint32, co, cs int64, dg string, cr io.Reader) error {
					_, err := io.CopyN(io.Discard, cr, 1<<16)
					if err == io.EOF {
						err = nil
					}
					return err
				})
			} else {
				f, err = r.OpenFile(it.id)
			}
			if err != nil {
				continue
			}
			for _, o := range []int64{-1, 0, 1, 3, 4, attr.Size - 1, attr.Size, 1 << 62} {
				f.ChunkEntryForOffset(o)
			}
			buf := make([]byte, 16)
			f.ReadAt(buf, 0)
			f.ReadAt(buf[:1], 3)
			if attr.Size > 0 {
				f.ReadAt(buf[:1], attr.Size-1)
			}
		}
	}
	return firstErr
}

// C04RegIDs lists (up to 16) regular files of a layer by a bounded walk.
func C04RegIDs(r Reader) (ids []uint32) {
	type item struct {
		id    uint32
		depth int
	}
	queue := []item{{r.RootID(), 0}}
	for n := 0; len(queue) > 0 && n < 200 && len(ids) < 16; n++ {
		it := queue[0]
		queue = queue[1:]
		r.ForeachChild(it.id, func(name string, id uint32, mode os.FileMode) bool {
			if mode.IsRegular() {
				ids = append(ids, id)
			} else if mode.IsDir() && it.depth < 5 {
				queue = append(queue, item{id, it.depth + 1})
			}
			return true
		})
	}
	return ids
}

// C04Child runs the cases [VERIF_C04_FROM, VERIF_C04_TO) against a store. extra runs further entry points that
// need packages this one cannot import (fs/reader's VerifiableReader.Cache).
func C04Child(storeName string, store Store, extra func(rec *C04Recorder, r Reader)) error {
	debug.SetMaxStack(64 << 20) // a runaway recursion is fatal after 64 MiB instead of 1 GiB: same verdict, much sooner
	var lim syscall.Rlimit
	lim.Cur, lim.Max = 8<<30, 8<<30
	syscall.Setrlimit(syscall.RLIMIT_AS, &lim)
	blobs, err := c04LoadBlobs()
	if err != nil {
		return err
	}
	from, _ := strconv.Atoi(os.Getenv("VERIF_C04_FROM"))
	to, _ := strconv.Atoi(os.Getenv("VERIF_C04_TO"))
	progress, err := os.OpenFile(os.Getenv("VERIF_C04_PROGRESS"), os.O_APPEND|os.O_CREATE|os.O_WRONLY, 0o644)
	if err != nil {
		return err
	}
	out, err := os.OpenFile(os.Getenv("VERIF_C04_OUT"), os.O_APPEND|os.O_CREATE|os.O_WRONLY, 0o644)
	if err != nil {
		return err
	}
	for i := from; i < to && i < len(blobs); i++ {
		fmt.Fprintf(progress, "B %d\n", i)
		b := blobs[i]
		data, _ := base64.StdEncoding.DecodeString(b.Blob)
		rec := &C04Recorder{progress, out, b.Case}
		var r Reader
		rec.Run("open", func() error {
			var opts []Option
			if b.TocOpt != 0 {
				opts = append(opts, WithTOCOffset(b.TocOpt))
			}
			rr, err := store(io.NewSectionReader(bytes.NewReader(data), 0, int64(len(data))), opts...)
			if err != nil {
				return err
			}
			// the bolt store parses the TOC in the background: wait for it (and get its verdict) with the first call that does
			if err := rr.ForeachChild(rr.RootID(), func(string, uint32, os.FileMode) bool { return false }); err != nil {
				rr.Close()
				return err
			}
			r = rr
			return nil
		})
		if b.Zstd {
			// footer case: once more with the decompressors fs/layer registers for every layer (zstd:chunked)
			rec.Run("open+zstd", func() error {
				opts := []Option{WithDecompressors(new(zstdchunked.Decompressor))}
				if b.TocOpt != 0 {
					opts = append(opts, WithTOCOffset(b.TocOpt))
				}
				rr, err := store(io.NewSectionReader(bytes.NewReader(data), 0, int64(len(data))), opts...)
				if err != nil {
					return err
				}
				err = rr.ForeachChild(rr.RootID(), func(string, uint32, os.FileMode) bool { return false })
				rr.Close()
				return err
			})
		}
		if r != nil {
			rec.Run(storeName+".walk+read", func() error { return c04Walk(r) })
			if extra != nil {
				extra(rec, r)
			}
			rec.Run(storeName+".clone+close", func() error {
				r2, err := r.Clone(io.NewSectionReader(bytes.NewReader(data), 0, int64(len(data))))
				if err == nil {
					c04Walk(r2)
				}
				if cerr := r.Close(); cerr != nil {
					return cerr
				}
				return err
			})
		}
		fmt.Fprintf(progress, "E %d\n", i)
	}
	if to-from == 1 {
		time.Sleep(150 * time.Millisecond) // a probe of one case: give a goroutine that is about to panic the time to
	}
	return nil
}

func c04TopFunc(dump string) string {
	count := map[string]int{}
	best := "?"
	for _, ln := range strings.Split(dump, "\n") {
		if !strings.HasPrefix(ln, "github.com/") && !strings.HasPrefix(ln, "go.etcd.io/") {
			continue
		}
		f := ln
		if i := strings.LastIndex(f, "("); i > 0 {
			f = f[:i]
		}
		f = strings.TrimPrefix(f, "github.com/containerd/stargz-snapshotter/")
		count[f]++
		if count[f] > count[best] {
			best = f
		}
	}
	return best
}

func c04RunSlice(childTest string, w, from, to int, ids []int, outPath string, deadline time.Duration, maxCrash int) (extra []c04Rec, skipped int) {
	return c04RunSliceOpt(childTest, w, from, to, ids, outPath, deadline, maxCrash, false)
}

func c04RunSliceOpt(childTest string, w, from, to int, ids []int, outPath string, deadline time.Duration, maxCrash int, single bool) (extra []c04Rec, skipped int) {
	from0 := from
	progPath := fmt.Sprintf("%s.progress%d", outPath, w)
	partPath := fmt.Sprintf("%s.part%d", outPath, w)
	crashes := 0
	for from < to {
		os.Remove(progPath)
		cmd := exec.Command(os.Args[0], "-test.run=^"+childTest+"$", "-test.timeout=0")
		cmd.Env = append(os.Environ(), "VERIF_C04_FROM="+strconv.Itoa(from), "VERIF_C04_TO="+strconv.Itoa(to),
			"VERIF_C04_PROGRESS="+progPath, "VERIF_C04_OUT="+partPath)
		var stderr bytes.Buffer
		cmd.Stdout, cmd.Stderr = &stderr, &stderr
		if err := cmd.Start(); err != nil {
			return append(extra, c04Rec{Case: -1, Ep: "driver", Out: "fatal", Msg: err.Error()}), to - from
		}
		done := make(chan error, 1)
		go func() { done <- cmd.Wait() }()
		var werr error
		hung := false
		lastSize, lastChange := int64(-1), time.Now()
	wait:
		for {
			select {
			case werr = <-done:
				break wait
			case <-time.After(200 * time.Millisecond):
				if st, err := os.Stat(progPath); err == nil && st.Size() != lastSize {
					lastSize, lastChange = st.Size(), time.Now()
				} else if time.Since(lastChange) > deadline && (lastSize >= 0 || time.Since(lastChange) > deadline+3*time.Minute) {
					// (a child that has not announced anything yet is still loading the cases: not a verdict about a case)
					hung = true
					cmd.Process.Kill()
					werr = <-done
					break wait
				}
			}
		}
		if werr == nil && !hung {
			break
		}
		idx, ep := from, "?"
		if raw, err := os.ReadFile(progPath); err == nil {
			for _, ln := range strings.Split(string(raw), "\n") {
				f := strings.Fields(ln)
				if len(f) >= 2 && f[0] == "B" {
					idx, _ = strconv.Atoi(f[1])
					ep = "?"
				} else if len(f) >= 3 && f[0] == "P" {
					ep = f[2]
				}
			}
		}
		msg := stderr.String()
		top := c04TopFunc(msg)
		if i := strings.Index(msg, "fatal error:"); i >= 0 {
			msg = msg[i:]
		} else if i := strings.Index(msg, "panic:"); i >= 0 {
			msg = msg[i:]
		}
		lines := strings.Split(msg, "\n")
		if len(lines) > 14 {
			lines = lines[:14]
		}
		msg = strings.Join(lines, " | ")
		if len(msg) > 600 {
			msg = msg[:600]
		}
		outc := "fatal"
		if hung {
			outc = "timeout"
		}
		// A panicking goroutine takes a moment to bring the process down while the others keep running, so the case
		// in flight may be one behind the culprit: run the in-flight case and its predecessor alone and blame the one
		// that reproduces (the in-flight one if neither does).
		blame := idx
		if !single && !hung {
			for _, cand := range []int{idx, idx - 1} {
				if cand < 0 || cand < from0 {
					continue
				}
				if ex, _ := c04RunSliceOpt(childTest, 1000+w, cand, cand+1, ids, outPath+".probe", deadline, 1, true); len(ex) > 0 {
					blame, ep = cand, ex[0].Ep
					break
				}
			}
		}
		extra = append(extra, c04Rec{Case: ids[blame], Ep: ep, Out: outc, Msg: "in " + top + ": " + msg})
		from = idx + 1
		crashes++
		if crashes >= maxCrash {
			return extra, to - from
		}
	}
	return extra, 0
}

// C04Parent splits the blobs over workers, each running children of this very test binary.
func C04Parent(childTest string) error {
	blobs, err := c04LoadBlobs()
	if err != nil {
		return err
	}
	outPath := os.Getenv("VERIF_OUT")
	workers, _ := strconv.Atoi(os.Getenv("VERIF_C04_WORKERS"))
	if workers <= 0 {
		workers = 8
	}
	deadline := 20 * time.Second
	if d, err := time.ParseDuration(os.Getenv("VERIF_C04_DEADLINE")); err == nil {
		deadline = d
	}
	ids := make([]int, len(blobs))
	for i, b := range blobs {
		ids[i] = b.Case
	}
	var mu sync.Mutex
	var extra []c04Rec
	skipped := 0
	var wg sync.WaitGroup
	per := (len(blobs) + workers - 1) / workers
	for w := 0; w < workers; w++ {
		from, to := w*per, (w+1)*per
		if to > len(blobs) {
			to = len(blobs)
		}
		if from >= to {
			continue
		}
		wg.Add(1)
		go func(w, from, to int) {
			defer wg.Done()
			ex, sk := c04RunSlice(childTest, w, from, to, ids, outPath, deadline, 25)
			mu.Lock()
			extra = append(extra, ex...)
			skipped += sk
			mu.Unlock()
		}(w, from, to)
	}
	wg.Wait()
	out, err := os.Create(outPath)
	if err != nil {
		return err
	}
	for w := 0; w < workers; w++ {
		if raw, err := os.ReadFile(fmt.Sprintf("%s.part%d", outPath, w)); err == nil {
			out.Write(raw)
		}
	}
	for _, r := range extra {
		b, _ := json.Marshal(r)
		out.Write(append(b, '\n'))
	}
	b, _ := json.Marshal(map[string]any{"case": 0, "ep": "driver", "out": "ok", "msg": fmt.Sprintf("skipped=%d", skipped)})
	out.Write(append(b, '\n'))
	return out.Close()
}

// ============================================================================================== C05 clone-early
// BigToc(n) (Toc.tla): one directory "big" with n empty regular files. Clone is called immediately after NewReader
// returned - the bolt store may still be parsing the TOC in the background - and the CLONE is walked.

type C05Early struct {
	Open     string `json:"open"`
	Clone    string `json:"clone"`
	RootKids int    `json:"rootkids"`
	BigKids  int    `json:"bigkids"`
	Nodes    int    `json:"nodes"`
}

func c05BigBlob(n int) []byte {
	entries := []*estargz.TOCEntry{{Name: "big/", Type: "dir", Mode: 0o755}}
	for k := 0; k < n; k++ {
		entries = append(entries, &estargz.TOCEntry{Name: fmt.Sprintf("big/f%05d", k), Type: "reg", Mode: 0o644})
	}
	js, _ := json.Marshal(&estargz.JTOC{Version: 1, Entries: entries})
	var blob bytes.Buffer
	blob.Write(c05Gzip([]byte("tar headers live here")))
	tocOff := int64(blob.Len())
	blob.Write(C05TocMember(js, 0))
	blob.Write(C05Footer(tocOff))
	return blob.Bytes()
}

// C05CloneEarly: reps times NewReader -> Clone at once -> walk of the clone; one ndjson line per repetition.
func C05CloneEarly(storeName string, store Store) error {
	n, _ := strconv.Atoi(os.Getenv("VERIF_C05_BIG"))
	reps, _ := strconv.Atoi(os.Getenv("VERIF_C05_REPS"))
	if n <= 0 {
		n = 5000
	}
	if reps <= 0 {
		reps = 3
	}
	data := c05BigBlob(n)
	f, err := os.Create(os.Getenv("VERIF_OUT") + "_early_" + storeName + ".ndjson")
	if err != nil {
		return err
	}
	defer f.Close()
	for rep := 1; rep <= reps; rep++ {
		e := C05Early{Open: "ok", Clone: "ok"}
		r, err := store(io.NewSectionReader(bytes.NewReader(data), 0, int64(len(data))))
		if err != nil {
			e.Open, e.Clone = "err", "-"
		} else {
			c, err := r.Clone(io.NewSectionReader(bytes.NewReader(data), 0, int64(len(data))))
			if err != nil {
				e.Clone = "err"
			} else {
				e.Nodes = 1
				var big uint32
				if err := c.ForeachChild(c.RootID(), func(name string, id uint32, mode os.FileMode) bool {
					e.RootKids++
					e.Nodes++
					if name == "big" {
						big = id
					}
					return true
				}); err != nil {
					e.Clone = "walk-err"
				}
				if big != 0 {
					if err := c.ForeachChild(big, func(string, uint32, os.FileMode) bool { e.BigKids++; e.Nodes++; return true }); err != nil {
						e.Clone = "walk-err"
					}
				}
			}
			r.Close()
		}
		line, _ := json.Marshal(map[string]any{"store": storeName, "n": n, "rep": rep, "early": e})
		f.Write(append(line, '\n'))
	}
	return nil
}

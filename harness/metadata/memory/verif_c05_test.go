//go:build verif

package memory

import (
	"runtime"
	"testing"

	"github.com/containerd/stargz-snapshotter/metadata"
)

// C05 driver, memory store: body in metadata/verif_toc.go (shared with the bolt store's driver in the cmd module).
func TestVerifC05Walk(t *testing.T) {
	err := metadata.C05Run("memory", runtime.NumCPU(), func(int) (metadata.Store, func(), error) {
		return NewReader, func() {}, nil
	})
	if err != nil {
		t.Fatal(err)
	}
}

// clone-early stage (BigToc(n) of Toc.tla): Clone immediately after NewReader, the clone is walked.
func TestVerifC05CloneEarly(t *testing.T) {
	if err := metadata.C05CloneEarly("memory", NewReader); err != nil {
		t.Fatal(err)
	}
}

//go:build verif

package memory

import (
	"os"
	"testing"

	"github.com/containerd/stargz-snapshotter/cache"
	fsreader "github.com/containerd/stargz-snapshotter/fs/reader"
	"github.com/containerd/stargz-snapshotter/metadata"
	digest "github.com/opencontainers/go-digest"
)

// C04 driver, memory store (body: metadata/verif_toc.go). Parent: crash isolation and attribution; child: the cases.
func TestVerifC04Parent(t *testing.T) {
	if err := metadata.C04Parent("TestVerifC04Child"); err != nil {
		t.Fatal(err)
	}
}

func c04Cache(rec *metadata.C04Recorder, r metadata.Reader) {
	rec.Run("reader.Cache", func() error {
		vr, err := fsreader.NewReader(r, cache.NewMemoryCache(), digest.FromString(""))
		if err != nil {
			return err
		}
		return vr.Cache()
	})
	// the FUSE read path: fs/reader's file.ReadAt sizes buffers from the chunk table of the metadata store
	rec.Run("reader.ReadAt", func() error {
		vr, err := fsreader.NewReader(r, cache.NewMemoryCache(), digest.FromString(""))
		if err != nil {
			return err
		}
		rd := vr.SkipVerify()
		var first error
		for _, id := range metadata.C04RegIDs(r) {
			f, err := rd.OpenFile(id)
			if err != nil {
				if first == nil {
					first = err
				}
				continue
			}
			buf := make([]byte, 16)
			for _, off := range []int64{0, 1, 3} {
				if _, err := f.ReadAt(buf, off); err != nil && first == nil {
					first = err
				}
			}
		}
		return first
	})
}

func TestVerifC04Child(t *testing.T) {
	if os.Getenv("VERIF_C04_PROGRESS") == "" {
		t.Skip("child of TestVerifC04Parent")
	}
	if err := metadata.C04Child("memory", NewReader, c04Cache); err != nil {
		t.Fatal(err)
	}
}

//go:build verif

package fusemanager

// Driver for FuseMgr.tla (property C17). It only EXECUTES and PROJECTS: request sequences (walks over TLC's state
// graph of FuseMgr, or seeded random sequences beyond the model-checking bounds) are executed against a real
// fusemanager.Server (real RPC methods, real bolt store file). The filesystem the server constructs in Init is
// replaced, through the hook "fusemgr.newfs" directly after service.NewFileSystem, by a recording filesystem whose
// Mount/Check/Unmount results are the ones the walk imposes. After every request the driver writes what the
// implementation returned, which filesystem calls it made and the projection of its state as one ndjson line.
// TLC (FuseMgrTrace / FuseMgrMonitor) decides.

import (
	"context"
	"encoding/json"
	"errors"
	"fmt"
	"os"
	"path/filepath"
	"reflect"
	"strings"
	"sync"
	"testing"
	"time"

	bolt "go.etcd.io/bbolt"

	pb "github.com/containerd/stargz-snapshotter/fusemanager/api"
	"github.com/containerd/stargz-snapshotter/service"
	"github.com/containerd/stargz-snapshotter/snapshot"
	"github.com/containerd/stargz-snapshotter/util/verifhook"
)

const (
	cfgBase   = 7000 // config tag c is carried as PrefetchSize = cfgBase + c
	labKey    = "verif/lab"
	refKey    = "containerd.io/snapshot/remote/stargz.reference"
	refPrefix = "registry.example/img:"
)

type vstep struct {
	Act  string   `json:"act"`
	Mp   string   `json:"mp"`
	Lab  string   `json:"lab"`
	Fail string   `json:"fail"`
	Rf   []string `json:"rf"`
	Fsok *bool    `json:"fsok"`
}

type vjob struct {
	Out   string    `json:"out"`
	NMp   int       `json:"nmp"`
	Walks [][]vstep `json:"walks"`
}

type vcall struct {
	Inst int    `json:"inst"`
	Op   string `json:"op"`
	Mp   string `json:"mp"`
	Lab  string `json:"lab"`
}

type vinst struct {
	Cfg   int `json:"cfg"`
	Epoch int `json:"epoch"`
}

type vrec struct {
	Lab string `json:"lab"`
	Cfg int    `json:"cfg"`
}

type vev map[string]any

// vharness is the environment of one walk: the manager process (server), the store file, the recording filesystems
type vharness struct {
	t       *testing.T
	dir     string
	store   string
	mps     []string // names "m1".."mN"
	fm      *Server
	epoch   int
	ninit   int
	insts   []*vrecFS
	live    map[string][]int  // mountpoint name -> instances that have it mounted, in mount order (mount tables of the fakes)
	liveLab map[string]string // mountpoint name -> label set of the filesystem-level mount that is live on it
	calls   []vcall           // filesystem calls of the request in progress
	failMp  map[string]bool   // Mount of these mountpoints fails (restore failures imposed on Init)
	fsFail  bool              // the filesystem call of this request fails
	newFail bool              // construction of the filesystem fails
	crash   bool              // the process dies directly after the filesystem call of this request took effect
}

// vcrash is what the recording filesystem panics with to end the manager process inside a request
type vcrash struct{}

var (
	vcur       *vharness // harness of the walk in progress (requests are sequential)
	vcfgFail   bool      // the registered ConfigFunc fails
	vcfgOnce   sync.Once
	errInjectd = errors.New("verif: injected failure")
)

// vrecFS is the recording snapshot.FileSystem
type vrecFS struct {
	h  *vharness
	id int
	vinst
}

func (h *vharness) name(path string) string {
	n := filepath.Base(path)
	if filepath.Join(h.dir, n) != path {
		return "?" + path
	}
	return n
}

func labelsOf(lab string) map[string]string {
	return map[string]string{labKey: lab, refKey: refPrefix + lab}
}

// labOf projects a label map to the label-set name it was built from; anything else becomes visible as "?..."
func labOf(m map[string]string) string {
	l, ok := m[labKey]
	if ok && len(m) == 2 && m[refKey] == refPrefix+l {
		return l
	}
	b, _ := json.Marshal(m)
	return "?" + string(b)
}

func (f *vrecFS) Mount(ctx context.Context, mountpoint string, labels map[string]string) error {
	n := f.h.name(mountpoint)
	f.h.calls = append(f.h.calls, vcall{f.id, "Mount", n, labOf(labels)})
	if f.h.fsFail || f.h.failMp[n] {
		return errInjectd
	}
	f.h.live[n] = append(f.h.live[n], f.id)
	f.h.liveLab[n] = labOf(labels)
	if f.h.crash {
		panic(vcrash{})
	}
	return nil
}

func (f *vrecFS) has(n string) int {
	for i, id := range f.h.live[n] {
		if id == f.id {
			return i
		}
	}
	return -1
}

func (f *vrecFS) Check(ctx context.Context, mountpoint string, labels map[string]string) error {
	n := f.h.name(mountpoint)
	f.h.calls = append(f.h.calls, vcall{f.id, "Check", n, labOf(labels)})
	if f.h.fsFail {
		return errInjectd
	}
	if f.has(n) < 0 {
		return fmt.Errorf("verif: %s is not mounted by instance %d", n, f.id)
	}
	return nil
}

func (f *vrecFS) Unmount(ctx context.Context, mountpoint string) error {
	n := f.h.name(mountpoint)
	f.h.calls = append(f.h.calls, vcall{f.id, "Unmount", n, "none"})
	if f.h.fsFail {
		return errInjectd
	}
	i := f.has(n)
	if i < 0 {
		return fmt.Errorf("verif: %s is not mounted by instance %d", n, f.id)
	}
	f.h.live[n] = append(append([]int{}, f.h.live[n][:i]...), f.h.live[n][i+1:]...)
	if len(f.h.live[n]) == 0 {
		delete(f.h.liveLab, n)
	}
	if f.h.crash {
		panic(vcrash{})
	}
	return nil
}

// onNewFS is the handler of the seam after service.NewFileSystem: the real filesystem (built from the config the
// server passed) is replaced by a recording one that remembers which config it was built from
func (h *vharness) onNewFS(pfs *snapshot.FileSystem, perr *error) {
	if h.newFail {
		*pfs, *perr = nil, errInjectd
		return
	}
	if *perr != nil {
		h.t.Fatalf("service.NewFileSystem failed for real: %v", *perr)
	}
	tag := -1
	if v := reflect.ValueOf(*pfs); v.Kind() == reflect.Ptr && v.Elem().Kind() == reflect.Struct {
		if f := v.Elem().FieldByName("prefetchSize"); f.IsValid() && f.CanInt() {
			tag = int(f.Int()) - cfgBase
		}
	}
	f := &vrecFS{h: h, id: len(h.insts) + 1, vinst: vinst{Cfg: tag, Epoch: h.epoch}}
	h.insts = append(h.insts, f)
	*pfs = f
}

func newVHarness(t *testing.T, base string, nmp int) *vharness {
	dir, err := os.MkdirTemp(base, "w")
	if err != nil {
		t.Fatal(err)
	}
	h := &vharness{t: t, dir: dir, store: filepath.Join(dir, "store", "fusestore.db"), live: map[string][]int{}, liveLab: map[string]string{}}
	for i := 1; i <= nmp; i++ {
		h.mps = append(h.mps, fmt.Sprintf("m%d", i))
	}
	h.start()
	return h
}

// start = a manager process starts on the store file
func (h *vharness) start() {
	fm, err := NewFuseManager(context.Background(), nil, nil, h.store, filepath.Join(h.dir, "fm.sock"))
	if err != nil {
		h.t.Fatalf("NewFuseManager: %v", err)
	}
	h.fm = fm
	h.epoch++
}

// kill = the manager process dies: its mounts are gone, the store file stays as it is (bolt handle released)
func (h *vharness) kill() {
	h.fm.ms.Close()
	h.fm = nil
	for k := range h.live {
		delete(h.live, k)
	}
	for k := range h.liveLab {
		delete(h.liveLab, k)
	}
}

func classify(err error) string {
	switch {
	case err == nil:
		return "ok"
	case strings.Contains(err.Error(), "fuse manager not ready"):
		return "notready"
	case strings.Contains(err.Error(), "failed to find filesystem of mountpoint"):
		return "nofs"
	}
	return "err"
}

// rpc runs one request; a panic of the server code is a result ("panic"), not a crash of the driver
func rpc(f func() error) (res string, msg string) {
	defer func() {
		if r := recover(); r != nil {
			if _, ok := r.(vcrash); ok {
				res, msg = "crash", ""
				return
			}
			res, msg = "panic", fmt.Sprint(r)
		}
	}()
	err := f()
	if err != nil {
		msg = err.Error()
	}
	return classify(err), msg
}

func (h *vharness) readStore() (map[string]vrec, int) {
	res := map[string]vrec{}
	for _, n := range h.mps {
		res[n] = vrec{Lab: "none"}
	}
	extra := 0
	view := func(tx *bolt.Tx) error {
		b := tx.Bucket(fuseInfoBucket)
		if b == nil {
			return nil
		}
		return b.ForEach(func(k, v []byte) error {
			n := h.name(string(k))
			if _, ok := res[n]; !ok {
				extra++
				return nil
			}
			fi := &fuseInfo{}
			if err := json.Unmarshal(v, fi); err != nil || fi.Mountpoint != string(k) {
				res[n] = vrec{Lab: "?corrupt"}
				return nil
			}
			res[n] = vrec{Lab: labOf(fi.Labels), Cfg: int(fi.Config.PrefetchSize) - cfgBase}
			return nil
		})
	}
	err := bolt.ErrDatabaseNotOpen
	if h.fm != nil {
		err = h.fm.ms.View(view)
	}
	if err != nil {
		// the server closed its handle: look at the file itself
		if _, serr := os.Stat(h.store); serr == nil {
			db, oerr := bolt.Open(h.store, 0600, &bolt.Options{ReadOnly: true, Timeout: 5 * time.Second})
			if oerr != nil {
				h.t.Fatalf("cannot read store file: %v", oerr)
			}
			if verr := db.View(view); verr != nil {
				h.t.Fatalf("cannot read store file: %v", verr)
			}
			db.Close()
		}
	}
	return res, extra
}

// observe projects the implementation state to the variables of FuseMgr.tla
func (h *vharness) observe(e vev) vev {
	st, err := h.fm.Status(context.Background(), &pb.StatusRequest{})
	if err != nil {
		h.t.Fatalf("Status: %v", err)
	}
	e["status"] = map[int32]string{FuseManagerNotReady: "closed", FuseManagerWaitInit: "wait", FuseManagerReady: "ready"}[st.Status]
	cfg := 0
	if h.fm.config != nil {
		cfg = int(h.fm.config.Config.PrefetchSize) - cfgBase
	}
	e["cfg"] = cfg
	instOf := func(x any) int {
		if x == nil {
			return 0
		}
		if f, ok := x.(*vrecFS); ok {
			return f.id
		}
		return -1
	}
	e["cur"] = instOf(h.fm.curFs)
	fsMap := map[string]int{}
	extra := 0
	for _, n := range h.mps {
		fsMap[n] = 0
	}
	h.fm.fsMap.Range(func(k, v any) bool {
		n := h.name(k.(string))
		if _, ok := fsMap[n]; ok {
			fsMap[n] = instOf(v)
		} else {
			extra++
		}
		return true
	})
	e["fsMap"] = fsMap
	store, sx := h.readStore()
	e["store"] = store
	e["extra"] = extra + sx
	insts := make([]vinst, 0, len(h.insts))
	for _, f := range h.insts {
		insts = append(insts, f.vinst)
	}
	e["insts"] = insts
	live := map[string][]int{}
	for _, n := range h.mps {
		live[n] = append([]int{}, h.live[n]...)
	}
	e["live"] = live
	liveLab := map[string]string{}
	for _, n := range h.mps {
		liveLab[n] = "none"
		if l, ok := h.liveLab[n]; ok {
			liveLab[n] = l
		}
	}
	e["liveLab"] = liveLab
	e["epoch"] = h.epoch
	calls := h.calls
	if calls == nil {
		calls = []vcall{}
	}
	e["calls"] = calls
	return e
}

func (h *vharness) exec(s vstep) vev {
	ctx := context.Background()
	h.calls = nil
	h.failMp = map[string]bool{}
	h.fsFail, h.newFail, vcfgFail = false, false, false
	fsok := s.Fsok == nil || *s.Fsok
	mp := filepath.Join(h.dir, s.Mp)
	var res, msg string
	e := vev{"act": s.Act}
	switch s.Act {
	case "Init":
		h.ninit++
		c := h.ninit
		cfg := &Config{Config: service.Config{}}
		cfg.Config.NoPrometheus = true
		cfg.Config.PrefetchSize = int64(cfgBase + c)
		b, err := json.Marshal(cfg)
		if err != nil {
			h.t.Fatal(err)
		}
		switch s.Fail {
		case "badcfg":
			b = []byte(`{"config": [not json`)
		case "cfgfunc":
			vcfgFail = true
		case "newfs":
			h.newFail = true
		case "none":
		default:
			h.t.Fatalf("unknown Init failure %q", s.Fail)
		}
		for _, n := range s.Rf {
			h.failMp[n] = true
		}
		res, msg = rpc(func() error {
			_, err := h.fm.Init(ctx, &pb.InitRequest{Root: filepath.Join(h.dir, "root"), Config: b})
			return err
		})
		rf := s.Rf
		if rf == nil {
			rf = []string{}
		}
		e["c"], e["fail"], e["rf"] = c, s.Fail, rf
	case "Mount":
		h.fsFail = !fsok
		res, msg = rpc(func() error {
			_, err := h.fm.Mount(ctx, &pb.MountRequest{Mountpoint: mp, Labels: labelsOf(s.Lab)})
			return err
		})
		e["mp"], e["lab"], e["fsok"] = s.Mp, s.Lab, fsok
	case "Check":
		h.fsFail = !fsok
		res, msg = rpc(func() error {
			_, err := h.fm.Check(ctx, &pb.CheckRequest{Mountpoint: mp, Labels: labelsOf("chk")})
			return err
		})
		e["mp"], e["fsok"] = s.Mp, fsok
	case "Unmount":
		h.fsFail = !fsok
		res, msg = rpc(func() error {
			_, err := h.fm.Unmount(ctx, &pb.UnmountRequest{Mountpoint: mp})
			return err
		})
		e["mp"], e["fsok"] = s.Mp, fsok
	case "MountCrash", "UnmountCrash":
		// the request runs until the filesystem call has taken effect, then the process is gone
		h.crash = true
		res, msg = rpc(func() error {
			var err error
			if s.Act == "MountCrash" {
				_, err = h.fm.Mount(ctx, &pb.MountRequest{Mountpoint: mp, Labels: labelsOf(s.Lab)})
			} else {
				_, err = h.fm.Unmount(ctx, &pb.UnmountRequest{Mountpoint: mp})
			}
			return err
		})
		h.crash = false
		e["mp"], e["lab"] = s.Mp, s.Lab
		if s.Act == "UnmountCrash" {
			e["lab"] = "none"
		}
		if res == "crash" {
			h.kill()
			h.start()
		} else {
			// the filesystem was not reached (refused, already served, unknown mountpoint ...): what ran is the plain request
			e["act"], e["fsok"] = strings.TrimSuffix(s.Act, "Crash"), true
			if s.Act == "UnmountCrash" {
				delete(e, "lab")
			}
		}
	case "Restart":
		h.kill()
		h.start()
		res = "ok"
	case "Close":
		res, msg = rpc(func() error { return h.fm.Close(ctx) })
	default:
		h.t.Fatalf("unknown action %q", s.Act)
	}
	h.failMp, h.fsFail, h.newFail, vcfgFail = map[string]bool{}, false, false, false
	e["res"] = res
	if msg != "" {
		e["msg"] = msg
	}
	return h.observe(e)
}

func TestVerifFuseMgrReplay(t *testing.T) {
	in := os.Getenv("VERIF_IN")
	if in == "" {
		t.Skip("VERIF_IN not set")
	}
	var jobs []vjob
	b, err := os.ReadFile(in)
	if err != nil {
		t.Fatal(err)
	}
	if err := json.Unmarshal(b, &jobs); err != nil {
		t.Fatal(err)
	}
	base := os.Getenv("VERIF_SCRATCH")
	if st, err := os.Stat("/dev/shm"); err == nil && st.IsDir() {
		// bolt fsyncs every transaction; keep the store files of the walks in memory
		if d, err := os.MkdirTemp("/dev/shm", "verif-c17-"); err == nil {
			base = d
			defer os.RemoveAll(d)
		}
	}
	if base == "" {
		base = t.TempDir()
	}
	vcfgOnce.Do(func() {
		RegisterConfigFunc(func(cc *ConfigContext) ([]service.Option, error) {
			if vcfgFail {
				return nil, errInjectd
			}
			return nil, nil
		})
	})
	verifhook.SetEvent(func(name string, kv ...any) {
		if name == "fusemgr.newfs" && vcur != nil {
			vcur.onNewFS(kv[0].(*snapshot.FileSystem), kv[1].(*error))
		}
	})
	defer verifhook.SetEvent(nil)
	for _, j := range jobs {
		f, err := os.Create(j.Out)
		if err != nil {
			t.Fatal(err)
		}
		enc := json.NewEncoder(f)
		for _, walk := range j.Walks {
			h := newVHarness(t, base, j.NMp)
			vcur = h
			if err := enc.Encode(vev{"act": "Reset", "res": "ok", "calls": []vcall{}}); err != nil {
				t.Fatal(err)
			}
			for _, s := range walk {
				if err := enc.Encode(h.exec(s)); err != nil {
					t.Fatal(err)
				}
			}
			vcur = nil
			if h.fm != nil {
				h.fm.ms.Close()
			}
			os.RemoveAll(h.dir)
		}
		f.Close()
	}
}

//go:build verif

package db

// Property C07, bolt-db metadata store: the driver body lives in fs/layer/verif_node.go (overlaid non-test file),
// called here the way reader_test.go calls layer.TestSuiteLayer(t, newStore).

import (
	"testing"

	"github.com/containerd/stargz-snapshotter/fs/layer"
)

func TestVerifNode(t *testing.T) {
	layer.VerifNodeDriver(t, newStore, "db")
}

func TestVerifOverlay(t *testing.T) {
	layer.VerifOverlayDriver(t, newStore, "db")
}

//go:build verif

package db

import (
	"io"
	"os"
	"testing"
	"time"

	"github.com/containerd/stargz-snapshotter/cache"
	fsreader "github.com/containerd/stargz-snapshotter/fs/reader"
	"github.com/containerd/stargz-snapshotter/metadata"
	digest "github.com/opencontainers/go-digest"
)

// C04 driver, bolt store (body: metadata/verif_toc.go, overlaid into the root module).
func TestVerifC04Parent(t *testing.T) {
	if err := metadata.C04Parent("TestVerifC04Child"); err != nil {
		t.Fatal(err)
	}
}

func TestVerifC04Child(t *testing.T) {
	if os.Getenv("VERIF_C04_PROGRESS") == "" {
		t.Skip("child of TestVerifC04Parent")
	}
	db, err := c05OpenDB(t, "c04-"+os.Getenv("VERIF_C04_FROM")+".db")
	if err != nil {
		t.Fatal(err)
	}
	defer db.Close()
	db.MaxBatchDelay = time.Millisecond // harness setting only: the default 10 ms per batch dominates thousands of tiny layers
	store := func(sr *io.SectionReader, opts ...metadata.Option) (metadata.Reader, error) {
		return NewReader(db, sr, opts...)
	}
	err = metadata.C04Child("db", store, func(rec *metadata.C04Recorder, r metadata.Reader) {
		rec.Run("reader.Cache", func() error {
			vr, err := fsreader.NewReader(r, cache.NewMemoryCache(), digest.FromString(""))
			if err != nil {
			return err
		}
		return vr.Cache()
	})
	// the FUSE read path: fs/reader's file.ReadAt sizes buffers from the chunk table of the metadata store
	rec.Run("reader.ReadAt", func() error {
		vr, err := fsreader.NewReader(r, cache.NewMemoryCache(), digest.FromString(""))
		if err != nil {
			return err
		}
		rd := vr.SkipVerify()
		var first error
		for _, id := range metadata.C04RegIDs(r) {
			f, err := rd.OpenFile(id)
			if err != nil {
				if first == nil {
					first = err
				}
				continue
			}
			buf := make([]byte, 16)
			for _, off := range []int64{0, 1, 3} {
				if _, err := f.ReadAt(buf, off); err != nil && first == nil {
					first = err
				}
			}
		}
		return first
	})
	})
	if err != nil {
		t.Fatal(err)
	}
}

//go:build verif

package db

import (
	"io"
	"os"
	"testing"

	"github.com/containerd/stargz-snapshotter/cache"
	fsreader "github.com/containerd/stargz-snapshotter/fs/reader"
	"github.com/containerd/stargz-snapshotter/metadata"
	digest "github.com/opencontainers/go-digest"
)

// C04 driver, bolt store (body: metadata/verif_toc.go, overlaid into the root module).
func TestVerifC04Parent(t *testing.T) {
	if err := metadata.C04Parent("TestVerifC04Child"); err != nil {
		t.Fatal(err)
	}
}

func TestVerifC04Child(t *testing.T) {
	if os.Getenv("VERIF_C04_PROGRESS") == "" {
		t.Skip("child of TestVerifC04Parent")
	}
	db, err := c05OpenDB(t, "c04-"+os.Getenv("VERIF_C04_FROM")+".db")
	if err != nil {
		t.Fatal(err)
	}
	defer db.Close()
	store := func(sr *io.SectionReader, opts ...metadata.Option) (metadata.Reader, error) {
		return NewReader(db, sr, opts...)
	}
	err = metadata.C04Child("db", store, func(rec *metadata.C04Recorder, r metadata.Reader) {
		rec.Run("reader.Cache", func() error {
			vr, err := fsreader.NewReader(r, cache.NewMemoryCache(), digest.FromString(""))
			if err != nil {
				return err
			}
			return vr.Cache()
		})
	})
	if err != nil {
		t.Fatal(err)
	}
}

//go:build verif

package db

import (
	"os"
	"testing"

	fsreader "github.com/containerd/stargz-snapshotter/fs/reader"
)

// The C01 driver (fs/reader/verif_verify.go, overlaid) against the bolt metadata store.

func TestVerifC01Replay(t *testing.T) {
	if os.Getenv("VERIF_IN") == "" {
		t.Skip("VERIF_IN not set")
	}
	fsreader.C01Replay(t, newStore, "db")
}

func TestVerifC01Free(t *testing.T) {
	if os.Getenv("VERIF_FREE_OUT") == "" {
		t.Skip("VERIF_FREE_OUT not set")
	}
	fsreader.C01Free(t, newStore, "db")
}

func TestVerifC01Sweep(t *testing.T) {
	if os.Getenv("VERIF_SWEEP_OUT") == "" {
		t.Skip("VERIF_SWEEP_OUT not set")
	}
	fsreader.C01Sweep(t, newStore, "db")
}

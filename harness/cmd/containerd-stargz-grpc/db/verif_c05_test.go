//go:build verif

package db

import (
	"io"
	"os"
	"path/filepath"
	"runtime"
	"testing"

	"github.com/containerd/stargz-snapshotter/metadata"
	bolt "go.etcd.io/bbolt"
)

func c05OpenDB(t *testing.T, name string) (*bolt.DB, error) {
	dir := os.Getenv("VERIF_SCRATCH")
	if dir == "" {
		dir = t.TempDir()
	}
	return bolt.Open(filepath.Join(dir, name), 0600, &bolt.Options{NoSync: true, NoFreelistSync: true})
}

// C05 driver, bolt store: body in metadata/verif_toc.go (overlaid into the root module, shared with the memory store's driver).
// Each worker has its own database file; the layers of one worker live in the same database one after the other.
func TestVerifC05Walk(t *testing.T) {
	err := metadata.C05Run("db", runtime.NumCPU(), func(w int) (metadata.Store, func(), error) {
		db, err := c05OpenDB(t, "c05-"+string(rune('a'+w))+".db")
		if err != nil {
			return nil, nil, err
		}
		return func(sr *io.SectionReader, opts ...metadata.Option) (metadata.Reader, error) {
			return NewReader(db, sr, opts...)
		}, func() { db.Close() }, nil
	})
	if err != nil {
		t.Fatal(err)
	}
}

// T: all layers live in ONE database; 16 goroutines open, walk, clone, walk again and close their layers while the
// others do the same (run under -race). The record of every layer is compared by TLC with the record of the same
// blob opened alone (LayersIndependent; a Close of one layer must not disturb the walks of the others).
func TestVerifC05Concurrent(t *testing.T) {
	db, err := c05OpenDB(t, "c05-shared.db")
	if err != nil {
		t.Fatal(err)
	}
	defer db.Close()
	store := func(sr *io.SectionReader, opts ...metadata.Option) (metadata.Reader, error) {
		return NewReader(db, sr, opts...)
	}
	err = metadata.C05Run("db", 16, func(int) (metadata.Store, func(), error) { return store, func() {}, nil })
	if err != nil {
		t.Fatal(err)
	}
}

// clone-early stage (BigToc(n) of Toc.tla): Clone immediately after NewReader - while the TOC may still be parsed in
// the background - and the clone is walked.
func TestVerifC05CloneEarly(t *testing.T) {
	db, err := c05OpenDB(t, "c05-early.db")
	if err != nil {
		t.Fatal(err)
	}
	defer db.Close()
	err = metadata.C05CloneEarly("db", func(sr *io.SectionReader, opts ...metadata.Option) (metadata.Reader, error) {
		return NewReader(db, sr, opts...)
	})
	if err != nil {
		t.Fatal(err)
	}
}

//go:build verif

package db

import (
	"testing"

	"github.com/containerd/stargz-snapshotter/fs/layer"
)

// TestVerifC15 runs the C15 driver (fs/layer/verif_prefetch.go, overlaid) against the bolt metadata store.
func TestVerifC15(t *testing.T) {
	layer.VerifC15(t, newStore, "db")
}

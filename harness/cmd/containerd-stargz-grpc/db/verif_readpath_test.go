//go:build verif

package db

import (
	"testing"

	"github.com/containerd/stargz-snapshotter/fs/layer"
)

// TestVerifC02 runs the C02 driver (fs/layer/verif_readpath.go, overlaid) against the bolt metadata store.
func TestVerifC02(t *testing.T) {
	layer.VerifC02(t, newStore, "db")
}

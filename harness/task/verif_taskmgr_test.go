//go:build verif

package task

// Driver for TaskMgr.tla (property C13). It only EXECUTES and RECORDS:
//   TestVerifTaskFree   free-running goroutines (invocations, prioritized clients, bodies that react late to
//                       cancellation) under -race; every hook appends one event under the driver mutex, so the
//                       order of the trace is the order of the hook calls
//   TestVerifTaskGated  replays TLC-generated walks: every goroutine of the manager is parked at its next
//                       verifhook.Gate and released in the order the walk says (one spec action = the segment
//                       from a gate release to the next gate arrival)
// The traces are decided by TLC (TaskMgrTrace / TaskMgrMonitor).

import (
	"context"
	"encoding/json"
	"fmt"
	"math/rand"
	"os"
	"strconv"
	"sync"
	"sync/atomic"
	"testing"
	"time"

	"github.com/containerd/stargz-snapshotter/util/verifhook"
)

type tev struct {
	Ev    string `json:"ev"`
	I     int    `json:"i"`
	N     int    `json:"n"`
	Tasks int    `json:"tasks"`
	Ts    int    `json:"ts"` // microseconds since the start of the run (monotonic clock)
	Cx    int    `json:"cx"`
	g     int64
}

type park struct {
	name string
	i, n int
	g    int64
	ch   chan struct{}
}

type rig struct {
	mu     sync.Mutex
	mgr    *BackgroundTaskManager
	base   time.Time
	evs    []tev
	inv    map[int64]int // goroutine -> invocation id
	gated  bool          // gates park (G mode) until freed
	parked map[int64]*park
	nbody  map[int]int             // invocation -> bodies begun
	ctxs   map[int]context.Context // invocation -> ctx of its latest body (gated mode)
}

var gateNames = map[string]string{
	"task.Decr": "Expire", "task.Bcast": "DecrEnd", "task.Load": "Load", "task.CondLock": "CondLock",
	"task.Acquire": "Acquire", "task.Decide": "Acquired", "task.Release": "Release", "task.Select": "Select",
}
var eventNames = map[string]string{
	"task.Do": "Do", "task.Done": "Done", "task.Broadcast": "Broadcast", "task.CondWait": "CondWait",
	"task.Decided": "Decided", "task.Notified": "Notified", "task.BodyDone": "BodyDone",
}

func newRig(conc int64, period time.Duration, gated bool) *rig {
	r := &rig{mgr: NewBackgroundTaskManager(conc, period), base: time.Now(), inv: map[int64]int{},
		gated: gated, parked: map[int64]*park{}, nbody: map[int]int{}, ctxs: map[int]context.Context{}}
	verifhook.SetEvent(func(name string, kv ...any) {
		if len(kv) == 0 || kv[0] != any(r.mgr) {
			return
		}
		g := verifhook.Goid()
		r.mu.Lock()
		e := tev{Ev: eventNames[name], I: r.inv[g], g: g, Ts: int(time.Since(r.base) / time.Microsecond)}
		if name == "task.Decided" {
			e.Tasks = int(kv[1].(int64))
		}
		r.evs = append(r.evs, e)
		r.mu.Unlock()
	})
	verifhook.SetGate(func(name string, kv ...any) {
		if len(kv) == 0 || kv[0] != any(r.mgr) {
			return
		}
		g := verifhook.Goid()
		r.mu.Lock()
		i := r.inv[g]
		r.evs = append(r.evs, tev{Ev: gateNames[name], I: i, g: g, Ts: int(time.Since(r.base) / time.Microsecond)})
		r.parkLocked(&park{name: name, i: i, g: g})
	})
	return r
}

// parkLocked is entered with r.mu held and returns with it released
func (r *rig) parkLocked(p *park) {
	if !r.gated {
		r.mu.Unlock()
		return
	}
	p.ch = make(chan struct{})
	r.parked[p.g] = p
	r.mu.Unlock()
	<-p.ch
}

func (r *rig) log(e tev) {
	r.mu.Lock()
	e.Ts = int(time.Since(r.base) / time.Microsecond)
	r.evs = append(r.evs, e)
	r.mu.Unlock()
}

func (r *rig) close() {
	verifhook.SetEvent(nil)
	verifhook.SetGate(nil)
}

func emit(w *json.Encoder, evs []tev) {
	w.Encode(tev{Ev: "Reset"})
	for _, e := range evs {
		w.Encode(e)
	}
}

func envInt(name string, def int) int {
	if v, err := strconv.Atoi(os.Getenv(name)); err == nil {
		return v
	}
	return def
}

// ---------------------------------------------------------------------------------------------
// T: free run

func TestVerifTaskFree(t *testing.T) {
	out := os.Getenv("VERIF_FREE_OUT")
	if out == "" {
		t.Skip("VERIF_FREE_OUT not set")
	}
	seed := int64(envInt("VERIF_SEED", 1))
	ntr := envInt("VERIF_FREE_TRACES", 20)
	periodUs := envInt("VERIF_PERIOD_US", 3000)
	for _, conc := range []int64{1, 2} {
		f, err := os.Create(fmt.Sprintf("%s_c%d.ndjson", out, conc))
		if err != nil {
			t.Fatal(err)
		}
		w := json.NewEncoder(f)
		for k := 0; k < ntr && !stuckSeen; k++ {
			freeRun(t, conc, time.Duration(periodUs)*time.Microsecond, rand.New(rand.NewSource(seed*100000+int64(k)*2+conc)), w)
		}
		if conc == 1 && !stuckSeen {
			saturatedRun(t, time.Duration(periodUs)*time.Microsecond, w)
		}
		f.Close()
	}
}

var stuckSeen bool

func freeRun(t *testing.T, conc int64, period time.Duration, rng *rand.Rand, w *json.Encoder) {
	r := newRig(conc, period, false)
	defer r.close()
	ninv := 2 + rng.Intn(3)
	ncli := 1 + rng.Intn(2)
	var cliWG sync.WaitGroup
	returned := make([]chan struct{}, ninv)
	us := func(n int) time.Duration { return time.Duration(rng.Intn(n)) * time.Microsecond }
	for k := 0; k < ninv; k++ {
		i := k + 1
		returned[k] = make(chan struct{})
		// per-invocation randomness is drawn up front so the body goroutines do not share rng
		work := make([]time.Duration, 64)
		linger := make([]time.Duration, 64)
		for j := range work {
			work[j] = us(6000)
			linger[j] = us(12000) // reacts to cancellation this late
		}
		delay := us(3000)
		// some invocations get a SHORT timeout: their bodies run past it and notice ctx.Done() late
		timeout := 24 * time.Hour
		if rng.Intn(5) < 2 {
			timeout = time.Duration(500+rng.Intn(3500)) * time.Microsecond
		}
		body := func(ctx context.Context) {
			r.mu.Lock()
			r.nbody[i]++
			n := r.nbody[i]
			r.evs = append(r.evs, tev{Ev: "BodyBegin", I: i, N: n, Ts: int(time.Since(r.base) / time.Microsecond)})
			r.mu.Unlock()
			cx := 0
			select {
			case <-time.After(work[n%64]):
			case <-ctx.Done():
				cx = 1
				time.Sleep(linger[n%64])
			}
			r.log(tev{Ev: "BodyEnd", I: i, N: n, Cx: cx})
		}
		go func() {
			time.Sleep(delay)
			r.mu.Lock()
			r.inv[verifhook.Goid()] = i
			r.mu.Unlock()
			defer func() {
				if p := recover(); p != nil { // classify, do not abort: the monitor still sees the whole recording
					r.log(tev{Ev: "Panic", I: i})
					close(returned[i-1])
				}
			}()
			r.mgr.InvokeBackgroundTask(body, timeout)
			r.log(tev{Ev: "Return", I: i})
			close(returned[i-1])
		}()
	}
	ndone := 0
	for c := 0; c < ncli; c++ {
		pairs := 1 + rng.Intn(3)
		ndone += pairs
		gaps := make([]time.Duration, 2*pairs)
		for j := range gaps {
			gaps[j] = us(5000)
		}
		cliWG.Add(1)
		go func() {
			defer cliWG.Done()
			for p := 0; p < pairs; p++ {
				time.Sleep(gaps[2*p])
				r.mgr.DoPrioritizedTask()
				time.Sleep(gaps[2*p+1] / 4)
				r.mgr.DonePrioritizedTask()
			}
		}()
	}
	cliWG.Wait()
	// every invocation must return now that prioritized work has stopped (bounded wait)
	deadline := time.After(30 * time.Second)
	var stuck []int
	for k := range returned {
		select {
		case <-returned[k]:
		case <-deadline:
			stuck = append(stuck, k+1)
			deadline = time.After(time.Millisecond)
		}
	}
	r.waitFor(20*time.Second, r.bodiesQuiet)
	// let the delayed-decrement goroutines finish (one Broadcast per Done)
	for end := time.Now().Add(10 * time.Second); time.Now().Before(end); time.Sleep(200 * time.Microsecond) {
		r.mu.Lock()
		nb := 0
		for _, e := range r.evs {
			if e.Ev == "Broadcast" {
				nb++
			}
		}
		r.mu.Unlock()
		if nb >= ndone {
			break
		}
	}
	for _, i := range stuck {
		stuckSeen = true // one bounded-wait verdict is enough; do not spend 30 s on every further trace
		r.log(tev{Ev: "Stuck", I: i})
	}
	r.mu.Lock()
	emit(w, r.evs)
	r.mu.Unlock()
}

// saturatedRun: the concurrency limit (1) is used up by a body that reacts to cancellation lateStart late, a second
// invocation is queued behind it, then a prioritized task begins and lasts longer than that. A body that BEGINS more
// than lateStart after the prioritized task began, while it is still in progress, cannot come from a start decision taken
// when no prioritized task was in progress (driver verdict LateStart, bounded like Stuck / CxTimeout).
const lateStart = 5 * time.Second

func saturatedRun(t *testing.T, period time.Duration, w *json.Encoder) {
	r := newRig(1, period, false)
	defer r.close()
	var doAt atomic.Int64 // ns since base of the Do in progress, 0 = none
	returned := []chan struct{}{make(chan struct{}), make(chan struct{})}
	began := make(chan struct{}, 8)
	body := func(i int) func(ctx context.Context) {
		return func(ctx context.Context) {
			r.mu.Lock()
			r.nbody[i]++
			n := r.nbody[i]
			now := time.Since(r.base)
			r.evs = append(r.evs, tev{Ev: "BodyBegin", I: i, N: n, Ts: int(now / time.Microsecond)})
			if d := doAt.Load(); d != 0 && now-time.Duration(d) >= lateStart {
				r.evs = append(r.evs, tev{Ev: "LateStart", I: i, N: n, Ts: int(now / time.Microsecond)})
			}
			r.mu.Unlock()
			began <- struct{}{}
			cx := 0
			if i == 1 && n == 1 {
				select {
				case <-ctx.Done():
					cx = 1
					time.Sleep(lateStart + 500*time.Millisecond)
				case <-time.After(30 * time.Second):
				}
			} else {
				select {
				case <-ctx.Done():
					cx = 1
				case <-time.After(time.Millisecond):
				}
			}
			r.log(tev{Ev: "BodyEnd", I: i, N: n, Cx: cx})
		}
	}
	invoke := func(i int) {
		go func() {
			r.mu.Lock()
			r.inv[verifhook.Goid()] = i
			r.mu.Unlock()
			defer func() {
				if p := recover(); p != nil {
					r.log(tev{Ev: "Panic", I: i})
					close(returned[i-1])
				}
			}()
			r.mgr.InvokeBackgroundTask(body(i), 24*time.Hour)
			r.log(tev{Ev: "Return", I: i})
			close(returned[i-1])
		}()
	}
	invoke(1)
	select {
	case <-began:
	case <-time.After(30 * time.Second):
		t.Log("saturated scenario: first body did not start; scenario skipped")
		return
	}
	invoke(2)
	time.Sleep(300 * time.Millisecond) // invocation 2 queues behind the only slot
	doAt.Store(int64(time.Since(r.base)) | 1)
	r.mgr.DoPrioritizedTask()
	time.Sleep(lateStart + 1500*time.Millisecond)
	doAt.Store(0)
	r.mgr.DonePrioritizedTask()
	deadline := time.After(30 * time.Second)
	for k := range returned {
		select {
		case <-returned[k]:
		case <-deadline:
			r.log(tev{Ev: "Stuck", I: k + 1})
			deadline = time.After(time.Millisecond)
		}
	}
	r.waitFor(20*time.Second, r.bodiesQuiet)
	for end := time.Now().Add(10 * time.Second); time.Now().Before(end); time.Sleep(200 * time.Microsecond) {
		r.mu.Lock()
		nb := 0
		for _, e := range r.evs {
			if e.Ev == "Broadcast" {
				nb++
			}
		}
		r.mu.Unlock()
		if nb >= 1 {
			break
		}
	}
	r.mu.Lock()
	emit(w, r.evs)
	r.mu.Unlock()
}

// ---------------------------------------------------------------------------------------------
// G: gated replay of TLC walks

type gstep struct {
	Act string `json:"act"`
	I   int    `json:"i"`
	N   int    `json:"n"`
	Cx  bool   `json:"cx"` // BodyEnd: the specification says the context of this body has been cancelled
	W   int    `json:"w"`  // ReleaseSem: the queued invocation the slot is handed to (0 = none)
}

type gjob struct {
	Name  string    `json:"name"`
	Conc  int64     `json:"conc"`
	Invs  int       `json:"invs"`
	Out   string    `json:"out"`
	Walks [][]gstep `json:"walks"`
}

type gstat struct {
	Name      string         `json:"name"`
	Walks     int            `json:"walks"`
	Completed int            `json:"completed"`
	Steps     int            `json:"steps"`
	Diverged  map[string]int `json:"diverged"`
	Skipped   int            `json:"skipped"`
}

func TestVerifTaskGated(t *testing.T) {
	in := os.Getenv("VERIF_IN")
	if in == "" {
		t.Skip("VERIF_IN not set")
	}
	var jobs []gjob
	b, err := os.ReadFile(in)
	if err != nil {
		t.Fatal(err)
	}
	if err := json.Unmarshal(b, &jobs); err != nil {
		t.Fatal(err)
	}
	limit := envInt("VERIF_DIVERGE_LIMIT", 4)
	var stats []gstat
	for _, j := range jobs {
		f, err := os.Create(j.Out)
		if err != nil {
			t.Fatal(err)
		}
		w := json.NewEncoder(f)
		st := gstat{Name: j.Name, Walks: len(j.Walks), Diverged: map[string]int{}}
		bad, hangs := 0, 0
		for _, walk := range j.Walks {
			if st.Diverged["release-blocked"] >= limit || st.Diverged["acquire-blocked"] >= limit {
				// the implementation waits for the body before releasing: walks of the non-waiting design do not apply
				st.Skipped++
				continue
			}
			if hangs >= 3 {
				// bounded-wait verdicts (Stuck / CxTimeout) were already recorded three times: do not spend 5 s on every further walk
				st.Skipped++
				continue
			}
			n, why := gatedWalk(t, j, walk, w)
			for try := 0; why == "select-other-arm" && try < 5; try++ {
				// both select arms were ready and Go chose the other one: run the walk again (every attempt is recorded)
				st.Diverged["select-retry"]++
				n, why = gatedWalk(t, j, walk, w)
			}
			st.Steps += n
			if why == "" {
				st.Completed++
			} else {
				st.Diverged[why]++
				if why == "wakeup" || why == "cxtimeout" {
					hangs++
					continue
				}
				if why != "release-blocked" && why != "acquire-blocked" && why != "select-other-arm" {
					// a step the specification enables did not happen: after a few of these the rest of the job is skipped
					// (reported as inconclusive by the check unless the monitor finds a property formula false)
					if bad++; bad >= 4 {
						hangs = 3
					}
				}
			}
		}
		f.Close()
		stats = append(stats, st)
	}
	sb, _ := json.Marshal(stats)
	fmt.Printf("VSTATS %s\n", sb)
}

const (
	stepWait  = 5 * time.Second        // a step the specification enables must happen; otherwise the walk is abandoned
	blockWait = 250 * time.Millisecond // deciding that the implementation blocks where the walk expects a release
)

func (r *rig) waitFor(d time.Duration, pred func() bool) bool {
	end := time.Now().Add(d)
	for {
		r.mu.Lock()
		ok := pred()
		r.mu.Unlock()
		if ok {
			return true
		}
		if time.Now().After(end) {
			return false
		}
		time.Sleep(10 * time.Microsecond)
	}
}

// bodiesQuiet: every spawned body has begun and ended (called with r.mu held)
func (r *rig) bodiesQuiet() bool {
	c := map[string]int{}
	for _, e := range r.evs {
		c[e.Ev]++
	}
	return c["BodyBegin"] == c["Select"] && c["BodyEnd"] == c["BodyBegin"]
}

// findParked must be called with r.mu held
func (r *rig) findParked(name string, i, n int) *park {
	for _, p := range r.parked {
		if p.name == name && p.i == i && (n == 0 || p.n == n) {
			return p
		}
	}
	return nil
}

// release lets the goroutine parked at (name,i,n) go; false if none arrives in time
func (r *rig) release(d time.Duration, name string, i, n int) (*park, bool) {
	var p *park
	if !r.waitFor(d, func() bool { p = r.findParked(name, i, n); return p != nil }) {
		return nil, false
	}
	r.mu.Lock()
	delete(r.parked, p.g)
	r.mu.Unlock()
	close(p.ch)
	return p, true
}

func (r *rig) parkedAt(i int, names ...string) func() bool {
	return func() bool {
		for _, nm := range names {
			if r.findParked(nm, i, 0) != nil {
				return true
			}
		}
		return false
	}
}

func (r *rig) seen(from int, ev string, i int) func() bool {
	return func() bool {
		for _, e := range r.evs[from:] {
			if e.Ev == ev && e.I == i {
				return true
			}
		}
		return false
	}
}

func gatedWalk(t *testing.T, j gjob, walk []gstep, w *json.Encoder) (int, string) {
	r := newRig(j.Conc, 100*time.Microsecond, true)
	defer r.close()
	var wg sync.WaitGroup
	body := func(i int) func(context.Context) {
		return func(ctx context.Context) {
			g := verifhook.Goid()
			r.mu.Lock()
			r.nbody[i]++ // bodies are numbered in the order they are spawned (the Decide step waits for the arrival)
			n := r.nbody[i]
			r.ctxs[i] = ctx
			r.parkLocked(&park{name: "body.begin", i: i, n: n, g: g})
			r.mu.Lock()
			r.evs = append(r.evs, tev{Ev: "BodyBegin", I: i, N: n, Ts: int(time.Since(r.base) / time.Microsecond)})
			p := &park{name: "body.end", i: i, n: n, g: g}
			r.parkLocked(p)
			// this body reacts to cancellation only now (arbitrarily late); when the specification says its context
			// has been cancelled, the cancellation must reach it
			cx := 0
			if p.n < 0 {
				select {
				case <-ctx.Done():
					cx = 1
				case <-time.After(stepWait):
					r.log(tev{Ev: "CxTimeout", I: i, N: n})
				}
			} else if ctx.Err() != nil {
				cx = 1
			}
			r.log(tev{Ev: "BodyEnd", I: i, N: n, Cx: cx})
		}
	}
	// an invocation for which the walk has a Timeout step gets a short timeout (real timers cannot be gated: the
	// deadline may pass earlier than the step, which changes nothing observable before the body ends); the others 24h
	timeouts := map[int]time.Duration{}
	for _, s := range walk {
		if s.Act == "Timeout" || s.Act == "AcquireTimeout" {
			timeouts[s.I] = 2 * time.Millisecond
		}
	}
	for k := 1; k <= j.Invs; k++ {
		i := k
		timeout := 24 * time.Hour
		if d, ok := timeouts[i]; ok {
			timeout = d
		}
		wg.Add(1)
		go func() {
			defer wg.Done()
			g := verifhook.Goid()
			r.mu.Lock()
			r.inv[g] = i
			r.mu.Unlock()
			defer func() {
				if p := recover(); p != nil {
					r.log(tev{Ev: "Panic", I: i})
				}
			}()
			r.mgr.InvokeBackgroundTask(body(i), timeout)
			r.mu.Lock()
			r.parkLocked(&park{name: "drv.return", i: i, g: g})
			r.log(tev{Ev: "Return", I: i})
		}()
	}
	active := 0
	sleeping := map[int]bool{}
	steps := 0
	why := ""
	fail := func(s string) { why = s }
	for k := 1; k <= j.Invs && why == ""; k++ {
		if !r.waitFor(stepWait, r.parkedAt(k, "task.Load")) {
			fail("start")
		}
	}
	for _, s := range walk {
		if why != "" {
			break
		}
		r.mu.Lock()
		from := len(r.evs)
		r.mu.Unlock()
		switch s.Act {
		case "Do":
			r.mgr.DoPrioritizedTask()
			active++
		case "Done":
			r.mgr.DonePrioritizedTask()
			active--
		case "Expire":
			// the sleep of one delayed-decrement goroutine is over: it arrives at its gate by itself
			if !r.waitFor(stepWait, func() bool {
				for _, p := range r.parked {
					if p.name == "task.Decr" && p.n == 0 {
						p.n = 1 // counted as expired
						return true
					}
				}
				return false
			}) {
				fail("expire")
			}
		case "DecrAdd":
			p, ok := r.release(stepWait, "task.Decr", 0, 1)
			if !ok || !r.waitFor(stepWait, func() bool { q := r.parked[p.g]; return q != nil && q.name == "task.Bcast" }) {
				fail("decradd")
			}
		case "Broadcast":
			p, ok := r.release(stepWait, "task.Bcast", 0, 0)
			if !ok || !r.waitFor(stepWait, func() bool {
				for _, e := range r.evs[from:] {
					if e.Ev == "Broadcast" && e.g == p.g {
						return true
					}
				}
				return false
			}) {
				fail("broadcast")
				break
			}
			for i := range sleeping {
				if !r.waitFor(stepWait, r.parkedAt(i, "task.Load")) {
					// the specification says this Broadcast wakes invocation i; it did not come back within the wait
					r.log(tev{Ev: "Stuck", I: i})
					fail("wakeup")
				}
				delete(sleeping, i)
			}
		case "LoadOuter":
			if _, ok := r.release(stepWait, "task.Load", s.I, 0); !ok || !r.waitFor(stepWait, r.parkedAt(s.I, "task.CondLock", "task.Acquire")) {
				fail("loadouter")
			}
		case "CondCheck":
			if _, ok := r.release(stepWait, "task.CondLock", s.I, 0); !ok {
				fail("condcheck")
				break
			}
			slept := r.seen(from, "CondWait", s.I)
			again := r.parkedAt(s.I, "task.Load")
			if !r.waitFor(stepWait, func() bool { return slept() || again() }) {
				fail("condcheck")
				break
			}
			r.mu.Lock()
			if slept() {
				sleeping[s.I] = true
			}
			r.mu.Unlock()
		case "AcquireSem":
			if _, ok := r.release(stepWait, "task.Acquire", s.I, 0); !ok || !r.waitFor(stepWait, r.parkedAt(s.I, "task.Decide")) {
				fail("acquire")
			}
		case "AcquireBlock":
			// no slot is free: the invocation goes into Acquire and queues there; it comes back with a hand-over
			if _, ok := r.release(stepWait, "task.Acquire", s.I, 0); !ok {
				fail("acquireblock")
			}
		case "AcquireTimeout":
			// (design with Acquire under the timeout ctx) the queued invocation gives up waiting and goes on without a slot
			if !r.waitFor(blockWait, r.parkedAt(s.I, "task.Decide")) {
				fail("acquire-blocked") // the implementation keeps waiting for a slot
			}
		case "Decide":
			if _, ok := r.release(stepWait, "task.Decide", s.I, 0); !ok || !r.waitFor(stepWait, r.parkedAt(s.I, "task.Select", "task.Release")) {
				fail("decide")
			} else if !r.waitFor(stepWait, func() bool { // the spawned body goroutine has arrived at its first gate
				nsel := 0
				for _, e := range r.evs {
					if e.Ev == "Select" && e.I == s.I {
						nsel++
					}
				}
				return r.nbody[s.I] == nsel
			}) {
				fail("spawn")
			}
		case "SelNotify", "SelDone":
			if _, ok := r.release(stepWait, "task.Select", s.I, 0); !ok {
				fail("select")
				break
			}
			a, b, c := r.seen(from, "Notified", s.I), r.seen(from, "BodyDone", s.I), r.parkedAt(s.I, "task.Release")
			if !r.waitFor(stepWait, func() bool { return a() || b() || c() }) {
				fail("select")
				break
			}
			r.mu.Lock()
			noArm := !a() && !b()
			other := (s.Act == "SelNotify" && !a()) || (s.Act == "SelDone" && !b())
			r.mu.Unlock()
			if noArm {
				// the invocation left its select by neither of the two arms of the specification. Follow what the
				// implementation does next (release, retry or return) so that the trace shows it, then stop the walk
				fail("select-no-arm")
				if _, ok := r.release(stepWait, "task.Release", s.I, 0); ok && r.waitFor(stepWait, r.parkedAt(s.I, "task.Load", "drv.return")) {
					if _, ok := r.release(0, "drv.return", s.I, 0); ok {
						r.waitFor(stepWait, r.seen(from, "Return", s.I))
					}
				}
			} else if other {
				fail("select-other-arm") // both arms were ready, Go chose the other one
			} else if s.Act == "SelDone" && !r.waitFor(stepWait, r.parkedAt(s.I, "task.Release")) {
				fail("seldone")
			}
		case "Timeout":
			// the deadline of the ctx of i's current body passes
			if !r.waitFor(stepWait, func() bool { c := r.ctxs[s.I]; return c != nil && c.Err() != nil }) {
				fail("timeout")
			}
		case "AwaitBody":
			if !r.waitFor(stepWait, r.parkedAt(s.I, "task.Release")) {
				fail("awaitbody")
			}
		case "ReleaseSem":
			if _, ok := r.release(blockWait, "task.Release", s.I, 0); !ok {
				fail("release-blocked") // the implementation does not release here (it waits for its body)
				break
			}
			if !r.waitFor(stepWait, r.parkedAt(s.I, "task.Load", "drv.return")) {
				fail("release")
			} else if s.W > 0 && !r.waitFor(stepWait, r.parkedAt(s.W, "task.Decide")) {
				fail("handover")
			}
		case "Return":
			if _, ok := r.release(stepWait, "drv.return", s.I, 0); !ok || !r.waitFor(stepWait, r.seen(from, "Return", s.I)) {
				fail("return")
			}
		case "BodyBegin":
			if _, ok := r.release(stepWait, "body.begin", s.I, s.N); !ok || !r.waitFor(stepWait, r.parkedAt(s.I, "body.end")) {
				fail("bodybegin")
			}
		case "BodyEnd":
			var p *park
			if !r.waitFor(stepWait, func() bool { p = r.findParked("body.end", s.I, s.N); return p != nil }) {
				fail("bodyend")
				break
			}
			r.mu.Lock()
			delete(r.parked, p.g)
			if s.Cx {
				p.n = -1 // read by the body after the channel is closed
			}
			r.mu.Unlock()
			close(p.ch)
			if !r.waitFor(2*stepWait, r.seen(from, "BodyEnd", s.I)) {
				fail("bodyend")
			} else if r.waitFor(0, r.seen(from, "CxTimeout", s.I)) {
				fail("cxtimeout")
			}
		default:
			t.Fatalf("unknown action %q", s.Act)
		}
		if why == "" {
			steps++
		}
	}
	// the recorded prefix is the trace; afterwards everything runs free so that the goroutines go away
	r.mu.Lock()
	emit(w, r.evs)
	r.gated = false
	for g, p := range r.parked {
		delete(r.parked, g)
		close(p.ch)
	}
	r.mu.Unlock()
	for ; active > 0; active-- {
		r.mgr.DonePrioritizedTask()
	}
	fin := make(chan struct{})
	go func() { wg.Wait(); close(fin) }()
	select {
	case <-fin:
		if !r.waitFor(30*time.Second, r.bodiesQuiet) {
			t.Fatalf("job %s: bodies did not finish after the walk was released (walk %v)", j.Name, walk)
		}
	case <-time.After(30 * time.Second):
		if why == "wakeup" {
			// already recorded as Stuck: an invocation the Broadcast should have woken sleeps for ever; its goroutine is left behind
			return steps, why
		}
		t.Fatalf("job %s: goroutines did not finish after the walk was released (walk %v, diverged %q)", j.Name, walk, why)
	}
	return steps, why
}
